package main

// Bridging to native Go for formatting (fmt) and other concrete-only library calls.

import (
	"fmt"
	"go/types"
	"strings"

	"golang.org/x/tools/go/ssa"
)

type nativeStringer struct {
	s     string
	under interface{}
}

func (n nativeStringer) Format(f fmt.State, verb rune) {
	switch verb {
	case 'v', 's':
		fmt.Fprintf(f, fmtDirective(f, 's'), n.s)
	case 'q', 'x', 'X':
		fmt.Fprintf(f, fmtDirective(f, verb), n.s)
	default:
		if n.under != nil {
			fmt.Fprintf(f, fmtDirective(f, verb), n.under)
		} else {
			fmt.Fprintf(f, "%%!%c(%s)", verb, n.s)
		}
	}
}

func fmtDirective(f fmt.State, verb rune) string {
	var sb strings.Builder
	sb.WriteByte('%')
	for _, c := range "+-# 0" {
		if f.Flag(int(c)) {
			sb.WriteRune(c)
		}
	}
	if w, ok := f.Width(); ok {
		fmt.Fprintf(&sb, "%d", w)
	}
	if p, ok := f.Precision(); ok {
		fmt.Fprintf(&sb, ".%d", p)
	}
	sb.WriteRune(verb)
	return sb.String()
}

type nativeStruct struct {
	names []string
	vals  []interface{}
	tname string
}

func (n nativeStruct) Format(f fmt.State, verb rune) {
	if verb != 'v' {
		fmt.Fprintf(f, "%%!%c(struct)", verb)
		return
	}
	if f.Flag('#') {
		fmt.Fprint(f, n.tname)
	}
	fmt.Fprint(f, "{")
	for k, v := range n.vals {
		if k > 0 {
			fmt.Fprint(f, " ")
		}
		if f.Flag('+') || f.Flag('#') {
			fmt.Fprint(f, n.names[k], ":")
		}
		fmt.Fprintf(f, fmtDirective(f, 'v'), v)
	}
	fmt.Fprint(f, "}")
}

type nativePtr struct {
	addr  int64
	inner interface{}
	amp   bool
}

func (n nativePtr) Format(f fmt.State, verb rune) {
	switch verb {
	case 'v':
		if n.amp && n.inner != nil {
			fmt.Fprint(f, "&")
			fmt.Fprintf(f, fmtDirective(f, 'v'), n.inner)
			return
		}
		fmt.Fprintf(f, "0x%x", n.addr)
	case 'p':
		fmt.Fprintf(f, "0x%x", n.addr)
	default:
		fmt.Fprintf(f, fmtDirective(f, verb), n.addr)
	}
}

type fmtCtx struct {
	i       *Interp
	fr      *frame
	symStrs [][]value
	nterms  int
}

const symMarkL, symMarkR = "\x01\x02S", "\x02\x01"
const termMark = "\x01\x02T\x02\x01"

func (c *fmtCtx) native(v value, t types.Type, depth int) interface{} {
	i := c.i
	if depth > 8 {
		return "..."
	}
	if t == nil {
		if it, ok := v.(iface); ok {
			if it.t == nil {
				return nil
			}
			return c.native(it.v, it.t, depth)
		}
		// untyped: best effort
		switch x := v.(type) {
		case bool, int64, float64, float32, string, complex128:
			return x
		}
	}
	if it, ok := v.(iface); ok {
		if it.t == nil {
			return nil
		}
		return c.native(it.v, it.t, depth)
	}
	// methods Error / String on the dynamic type
	if t != nil {
		if _, isExt := t.(*extType); !isExt {
			for _, mname := range []string{"Error", "String"} {
				if m := i.findMethod(t, mname); m != nil {
					sig := m.Signature
					if sig.Params().Len() == 0 && sig.Results().Len() == 1 && isStringType(sig.Results().At(0).Type()) {
						if p, ok := v.(*value); ok && p == nil {
							return "<nil>"
						}
						r := i.call(c.fr, 0, m, []value{v})
						var under interface{}
						if _, ok := intInfo(t); ok {
							if x, ok := v.(int64); ok {
								under = x
							}
						}
						return nativeStringer{s: c.strMark(r), under: under}
					}
				}
			}
		}
	}
	switch x := v.(type) {
	case bool:
		return x
	case int64:
		if b := basicOf(t); b != nil {
			switch b.Kind() {
			case types.Int:
				return int(x)
			case types.Int8:
				return int8(x)
			case types.Int16:
				return int16(x)
			case types.Int32:
				return int32(x)
			case types.Int64:
				return x
			case types.Uint:
				return uint(x)
			case types.Uint8:
				return uint8(x)
			case types.Uint16:
				return uint16(x)
			case types.Uint32:
				return uint32(x)
			case types.Uint64:
				return uint64(x)
			case types.Uintptr:
				return uintptr(x)
			}
		}
		return x
	case float64, float32, complex128:
		return x
	case string:
		return x
	case *symstr:
		return c.strMark(x)
	case *Term:
		c.nterms++
		i.path.approx = append(i.path.approx, "fmt of symbolic scalar")
		return termMark
	case *value:
		if x == nil {
			return nil
		}
		var inner interface{}
		amp := false
		if t != nil {
			if pt, ok := t.Underlying().(*types.Pointer); ok {
				switch pt.Elem().Underlying().(type) {
				case *types.Struct, *types.Array, *types.Slice, *types.Map:
					inner = c.native(*x, pt.Elem(), depth+1)
					amp = true
				}
			}
		}
		return nativePtr{addr: ptrToInt(x), inner: inner, amp: amp}
	case []value:
		var et types.Type
		if t != nil {
			if st, ok := t.Underlying().(*types.Slice); ok {
				et = st.Elem()
			}
		}
		if b := basicOf(et); b != nil && b.Kind() == types.Uint8 {
			s := mkStr(x)
			if cs, ok := s.(string); ok {
				return []byte(cs)
			}
		}
		res := make([]interface{}, len(x))
		for k := range x {
			res[k] = c.native(x[k], et, depth+1)
		}
		if x == nil {
			return []interface{}(nil)
		}
		return res
	case array:
		var et types.Type
		if t != nil {
			if at, ok := t.Underlying().(*types.Array); ok {
				et = at.Elem()
			}
		}
		res := make([]interface{}, len(x))
		for k := range x {
			res[k] = c.native(x[k], et, depth+1)
		}
		return res
	case structure:
		ns := nativeStruct{}
		var st *types.Struct
		if t != nil {
			st, _ = t.Underlying().(*types.Struct)
			ns.tname = t.String()
		}
		for k := range x {
			var ft types.Type
			name := fmt.Sprintf("f%d", k)
			if st != nil {
				ft = st.Field(k).Type()
				name = st.Field(k).Name()
			}
			ns.names = append(ns.names, name)
			ns.vals = append(ns.vals, c.native(x[k], ft, depth+1))
		}
		return ns
	case *omap:
		res := map[interface{}]interface{}{}
		if x == nil {
			return res
		}
		var kt, vt types.Type
		if x.t != nil {
			kt, vt = x.t.Key(), x.t.Elem()
		}
		for _, e := range x.liveEntries() {
			k := c.native(e.key, kt, depth+1)
			func() {
				defer func() { recover() }()
				res[k] = c.native(e.val, vt, depth+1)
			}()
		}
		return res
	case *ssa.Function, *closure:
		return nativePtr{addr: 0x47b000}
	case *channel:
		return nativePtr{addr: 0xc000100000}
	case upointer:
		if x.p == nil {
			return nil
		}
		return nativePtr{addr: 0xc000200000}
	case nil:
		return nil
	}
	return fmt.Sprintf("<%T>", v)
}

// strMark registers a possibly symbolic string and returns the text standing for it.
func (c *fmtCtx) strMark(v value) string {
	switch s := v.(type) {
	case string:
		return s
	case *symstr:
		c.symStrs = append(c.symStrs, s.b)
		return fmt.Sprintf("%s%d%s", symMarkL, len(c.symStrs)-1, symMarkR)
	}
	return toString(v)
}

// finish splices symbolic strings back into the formatted text.
func (c *fmtCtx) finish(out string) value {
	out = strings.ReplaceAll(out, termMark, "<sym>")
	if len(c.symStrs) == 0 {
		return out
	}
	var b []value
	rest := out
	found := 0
	for {
		k := strings.Index(rest, symMarkL)
		if k < 0 {
			break
		}
		for _, ch := range []byte(rest[:k]) {
			b = append(b, int64(ch))
		}
		rest = rest[k+len(symMarkL):]
		e := strings.Index(rest, symMarkR)
		if e < 0 {
			c.i.unsupported("fmt: formatting verb applied to a symbolic string")
		}
		var idx int
		fmt.Sscanf(rest[:e], "%d", &idx)
		b = append(b, c.symStrs[idx]...)
		rest = rest[e+len(symMarkR):]
		found++
	}
	for _, ch := range []byte(rest) {
		b = append(b, int64(ch))
	}
	if found < len(c.symStrs) {
		c.i.unsupported("fmt: formatting verb transformed a symbolic string (e.g. %%q)")
	}
	return mkStr(b)
}

func (c *fmtCtx) args(v value) []interface{} {
	xs := v.([]value)
	res := make([]interface{}, len(xs))
	for k, a := range xs {
		res[k] = c.native(a, nil, 0)
	}
	return res
}

func init() {
	reg := func(name string, f intrinsicFn) { intrinsics[name] = f }
	sprintf := func(i *Interp, fr *frame, format value, args value) value {
		c := &fmtCtx{i: i, fr: fr}
		f := c.strMark(format)
		f = strings.ReplaceAll(f, "%w", "%v")
		nat := c.args(args)
		if strings.Contains(f, "T") {
			f = fixTypeVerbs(f, args.([]value), nat)
		}
		return c.finish(fmt.Sprintf(f, nat...))
	}
	sprint := func(i *Interp, fr *frame, args value, ln bool) value {
		c := &fmtCtx{i: i, fr: fr}
		if ln {
			return c.finish(fmt.Sprintln(c.args(args)...))
		}
		return c.finish(fmt.Sprint(c.args(args)...))
	}
	reg("fmt.Sprintf", func(i *Interp, fr *frame, a []value) value { return sprintf(i, fr, a[0], a[1]) })
	reg("fmt.Sprint", func(i *Interp, fr *frame, a []value) value { return sprint(i, fr, a[0], false) })
	reg("fmt.Sprintln", func(i *Interp, fr *frame, a []value) value { return sprint(i, fr, a[0], true) })
	reg("fmt.Errorf", func(i *Interp, fr *frame, a []value) value {
		msg := sprintf(i, fr, a[0], a[1])
		// %w: keep the wrapped error reachable through Unwrap when fmt.wrapError is loaded
		if f, ok := a[0].(string); ok && strings.Count(f, "%w") == 1 && i.wrapErrorPtr != nil {
			var wrapped value = iface{}
			for _, x := range a[1].([]value) {
				if it, ok := x.(iface); ok && it.t != nil && i.findMethod(it.t, "Error") != nil {
					wrapped = it
				}
			}
			p := value(structure{msg, wrapped})
			return iface{t: i.wrapErrorPtr, v: &p}
		}
		return i.mkError(msg)
	})
	writeTo := func(i *Interp, fr *frame, w value, s value) value {
		wi := w.(iface)
		if wi.t == nil {
			i.runtimePanic(fr, "invalid memory address or nil pointer dereference (nil io.Writer)")
		}
		m := i.findMethod(wi.t, "Write")
		if m == nil {
			i.unsupported("fmt.Fprint*: writer %v has no Write", wi.t)
		}
		b := strBytes(s)
		cp := make([]value, len(b))
		copy(cp, b)
		return i.call(fr, 0, m, []value{wi.v, cp})
	}
	reg("fmt.Fprintf", func(i *Interp, fr *frame, a []value) value { return writeTo(i, fr, a[0], sprintf(i, fr, a[1], a[2])) })
	reg("fmt.Fprint", func(i *Interp, fr *frame, a []value) value { return writeTo(i, fr, a[0], sprint(i, fr, a[1], false)) })
	reg("fmt.Fprintln", func(i *Interp, fr *frame, a []value) value { return writeTo(i, fr, a[0], sprint(i, fr, a[1], true)) })
	discard := func(i *Interp, fr *frame, a []value) value { return tuple{int64(0), iface{}} }
	reg("fmt.Printf", discard)
	reg("fmt.Println", discard)
	reg("fmt.Print", discard)
	reg("log.Println", func(i *Interp, fr *frame, a []value) value { return nil })
	reg("log.Printf", func(i *Interp, fr *frame, a []value) value { return nil })
	reg("log.Print", func(i *Interp, fr *frame, a []value) value { return nil })
}

// fixTypeVerbs rewrites %T verbs: the corresponding argument becomes the Go type name of the
// interpreted value and the verb becomes %s.
func fixTypeVerbs(f string, args []value, nat []interface{}) string {
	var sb strings.Builder
	argi := 0
	for k := 0; k < len(f); k++ {
		if f[k] != '%' {
			sb.WriteByte(f[k])
			continue
		}
		start := k
		k++
		if k < len(f) && f[k] == '%' {
			sb.WriteString("%%")
			continue
		}
		for k < len(f) && strings.IndexByte("+-# 0123456789.*[]", f[k]) >= 0 {
			if f[k] == '*' {
				argi++
			}
			if f[k] == '[' {
				return f // explicit argument indexes: leave untouched
			}
			k++
		}
		if k >= len(f) {
			sb.WriteString(f[start:])
			break
		}
		if f[k] == 'T' && argi < len(args) {
			name := "<nil>"
			if it, ok := args[argi].(iface); ok && it.t != nil {
				name = types.TypeString(it.t, func(p *types.Package) string { return p.Name() })
			}
			nat[argi] = name
			sb.WriteString(f[start:k])
			sb.WriteByte('s')
		} else {
			sb.WriteString(f[start : k+1])
		}
		argi++
	}
	return sb.String()
}
