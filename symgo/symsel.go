package main

// Reads from a table with a symbolic index become one if-then-else term instead of one
// path per index value (unicode/ASCII class tables, digit tables, symbolic strings).

import (
	"go/token"
	"go/types"

	"golang.org/x/tools/go/ssa"
)

// symref is the result of &table[symbolic] when the address is only ever loaded from.
type symref struct{ v value }

// symIndexRef returns a symref for &xs[idx] if idx is symbolic, all uses of the address
// are loads, and the element values can be merged into one term.
func (i *Interp) symIndexRef(fr *frame, instr *ssa.IndexAddr, xs []value, idx value) value {
	if _, ok := idx.(*Term); !ok {
		return nil
	}
	refs := instr.Referrers()
	if refs == nil || len(*refs) == 0 {
		return nil
	}
	for _, r := range *refs {
		u, ok := r.(*ssa.UnOp)
		if !ok || u.Op != token.MUL {
			return nil
		}
	}
	v, ok := i.symSelect(fr, xs, idx, deref(instr.Type()))
	if !ok {
		return nil
	}
	return &symref{v}
}

// symSelect builds xs[idx] as a term. ok=false means: fall back to concretising idx.
func (i *Interp) symSelect(fr *frame, xs []value, idx value, elemT types.Type) (value, bool) {
	t, ok := idx.(*Term)
	if !ok || len(xs) < 2 || len(xs) > 4096 {
		return nil, false
	}
	// element sort
	var sort Sort
	k, isInt := intInfo(elemT)
	switch {
	case isInt:
		sort = bvSort(k.w)
	case basicOf(elemT) != nil && basicOf(elemT).Kind() == types.Bool:
		sort = SBool
	default:
		return nil, false
	}
	for _, x := range xs {
		switch x.(type) {
		case int64, bool, *Term:
		default:
			return nil, false
		}
	}
	w := t.sort.Width()
	n := len(xs)
	// bounds check (one branch for all out-of-range values)
	if !(w < 64 && uint64(n) >= uint64(1)<<uint(w)) {
		in := i.tt.BVCmp("bvult", t, i.tt.BV(w, uint64(n)))
		if !i.branch(in) {
			i.runtimePanic(fr, "index out of range [symbolic] with length %d", n)
		}
	}
	toTerm := func(x value) *Term {
		switch x := x.(type) {
		case *Term:
			return x
		case int64:
			return i.tt.BV(k.w, uint64(x))
		case bool:
			return i.tt.Bool(x)
		}
		panic("symSelect")
	}
	// group consecutive equal elements into ranges to keep the term small
	type run struct {
		lo, hi int
		v      *Term
	}
	var runs []run
	for j, x := range xs {
		tv := toTerm(x)
		if len(runs) > 0 && runs[len(runs)-1].v == tv {
			runs[len(runs)-1].hi = j
		} else {
			runs = append(runs, run{j, j, tv})
		}
	}
	if len(runs) == 1 {
		return termToValue(runs[0].v, k), true
	}
	// most common value as the default
	count := map[*Term]int{}
	for _, r := range runs {
		count[r.v] += r.hi - r.lo + 1
	}
	var def *Term
	best := -1
	for _, r := range runs {
		if count[r.v] > best {
			best = count[r.v]
			def = r.v
		}
	}
	res := def
	for j := len(runs) - 1; j >= 0; j-- {
		r := runs[j]
		if r.v == def {
			continue
		}
		var c *Term
		if r.lo == r.hi {
			c = i.tt.Eq(t, i.tt.BV(w, uint64(r.lo)))
		} else {
			c = i.tt.And(i.tt.BVCmp("bvule", i.tt.BV(w, uint64(r.lo)), t), i.tt.BVCmp("bvule", t, i.tt.BV(w, uint64(r.hi))))
		}
		res = i.tt.Ite(c, r.v, res)
	}
	_ = sort
	return termToValue(res, k), true
}
