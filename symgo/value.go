package main

// Value representation of the symbolic interpreter (derived from the layout of
// golang.org/x/tools/go/ssa/interp, with a uniform scalar representation):
//
//  bool                         concrete boolean
//  int64                        every concrete integer kind, canonical for its static type
//                               (sign-extended for signed kinds, zero-extended for unsigned
//                               kinds narrower than 64 bits, raw bit pattern for uint64/uintptr)
//  float64 / float32 / complex128
//  string                       fully concrete string
//  *symstr                      string with concrete length and >=1 symbolic byte
//  *Term                        symbolic bool / integer / float
//  *value                       pointer to a cell
//  []value                      slice
//  array, structure, tuple      aggregates
//  iface                        interface value with its dynamic type
//  *omap                        map
//  *channel                     channel
//  *ssa.Function, *closure, *ssa.Builtin   function values
//  upointer                     unsafe.Pointer wrapping another value

import (
	"fmt"
	"go/types"
	"strings"

	"golang.org/x/tools/go/ssa"
)

type value interface{}

type tuple []value
type array []value
type structure []value

type iface struct {
	t types.Type
	v value
}

type closure struct {
	Fn  *ssa.Function
	Env []value
}

type upointer struct{ p value }

// symstr is an immutable string of known length whose bytes are int64 (0..255) or *Term (BV8).
type symstr struct{ b []value }

type bad struct{}

type rtype struct{ t types.Type }

// slicedata is what unsafe.SliceData / unsafe.StringData return: enough to rebuild the original.
type slicedata struct {
	s   []value
	str value
}

func isSym(v value) bool {
	switch v.(type) {
	case *Term, *symstr:
		return true
	}
	return false
}

// ---- type helpers

type intKind struct {
	w      int
	signed bool
}

func basicOf(t types.Type) *types.Basic {
	if t == nil {
		return nil
	}
	b, _ := t.Underlying().(*types.Basic)
	return b
}

func intInfo(t types.Type) (intKind, bool) {
	b := basicOf(t)
	if b == nil {
		return intKind{}, false
	}
	switch b.Kind() {
	case types.Int, types.Int64, types.UntypedInt:
		return intKind{64, true}, true
	case types.Int8:
		return intKind{8, true}, true
	case types.Int16:
		return intKind{16, true}, true
	case types.Int32, types.UntypedRune:
		return intKind{32, true}, true
	case types.Uint, types.Uint64, types.Uintptr:
		return intKind{64, false}, true
	case types.Uint8:
		return intKind{8, false}, true
	case types.Uint16:
		return intKind{16, false}, true
	case types.Uint32:
		return intKind{32, false}, true
	}
	return intKind{}, false
}

func (k intKind) norm(v int64) int64 {
	switch k.w {
	case 8:
		if k.signed {
			return int64(int8(v))
		}
		return int64(uint8(v))
	case 16:
		if k.signed {
			return int64(int16(v))
		}
		return int64(uint16(v))
	case 32:
		if k.signed {
			return int64(int32(v))
		}
		return int64(uint32(v))
	}
	return v
}

func isFloatType(t types.Type) (Sort, bool) {
	b := basicOf(t)
	if b == nil {
		return 0, false
	}
	switch b.Kind() {
	case types.Float64, types.UntypedFloat:
		return SFP64, true
	case types.Float32:
		return SFP32, true
	}
	return 0, false
}

func isStringType(t types.Type) bool {
	b := basicOf(t)
	return b != nil && b.Info()&types.IsString != 0
}

func deref(t types.Type) types.Type {
	if p, ok := t.Underlying().(*types.Pointer); ok {
		return p.Elem()
	}
	panic(fmt.Sprintf("deref of non-pointer type %v", t))
}

// zero returns a new zero value of type t.
func zero(t types.Type) value {
	switch t := t.(type) {
	case *types.Basic:
		if t.Kind() == types.UntypedNil {
			panic("untyped nil has no zero value")
		}
		if t.Info()&types.IsUntyped != 0 {
			t = types.Default(t).(*types.Basic)
		}
		switch {
		case t.Kind() == types.Bool:
			return false
		case t.Info()&types.IsInteger != 0:
			return int64(0)
		case t.Kind() == types.Float64:
			return float64(0)
		case t.Kind() == types.Float32:
			return float32(0)
		case t.Info()&types.IsComplex != 0:
			return complex128(0)
		case t.Kind() == types.String:
			return ""
		case t.Kind() == types.UnsafePointer:
			return upointer{}
		}
		panic(fmt.Sprint("zero for unexpected type:", t))
	case *types.Pointer:
		return (*value)(nil)
	case *types.Array:
		a := make(array, t.Len())
		for i := range a {
			a[i] = zero(t.Elem())
		}
		return a
	case *types.Named:
		return zero(t.Underlying())
	case *types.Alias:
		return zero(types.Unalias(t))
	case *types.Interface:
		return iface{}
	case *types.Slice:
		return []value(nil)
	case *types.Struct:
		s := make(structure, t.NumFields())
		for i := range s {
			s[i] = zero(t.Field(i).Type())
		}
		return s
	case *types.Tuple:
		if t.Len() == 1 {
			return zero(t.At(0).Type())
		}
		s := make(tuple, t.Len())
		for i := range s {
			s[i] = zero(t.At(i).Type())
		}
		return s
	case *types.Chan:
		return (*channel)(nil)
	case *types.Map:
		return (*omap)(nil)
	case *types.Signature:
		return (*ssa.Function)(nil)
	case *types.TypeParam:
		panic("zero of type parameter (generic body not instantiated)")
	}
	panic(fmt.Sprint("zero: unexpected ", t))
}

// load returns a copy of the value of type T stored at addr.
func load(T types.Type, addr *value) value {
	return copyVal(*addr)
}

// copyVal copies aggregates (value semantics); everything else is immutable or a reference.
func copyVal(v value) value {
	switch v := v.(type) {
	case structure:
		a := make(structure, len(v))
		for i := range v {
			a[i] = copyVal(v[i])
		}
		return a
	case array:
		a := make(array, len(v))
		for i := range v {
			a[i] = copyVal(v[i])
		}
		return a
	}
	return v
}

// ---- printing (debug, samples)

func toString(v value) string {
	var b strings.Builder
	writeValue(&b, v, 0)
	return b.String()
}

func writeValue(buf *strings.Builder, v value, depth int) {
	if depth > 6 {
		buf.WriteString("...")
		return
	}
	switch v := v.(type) {
	case nil:
		buf.WriteString("<nil>")
	case bool, int64, float64, float32, complex128:
		fmt.Fprintf(buf, "%v", v)
	case string:
		fmt.Fprintf(buf, "%q", v)
	case *symstr:
		buf.WriteString("sym\"")
		for _, b := range v.b {
			if c, ok := b.(int64); ok {
				buf.WriteString(fmt.Sprintf("%q", string(rune(c)))[1:])
				buf.WriteString("\b")
			} else {
				buf.WriteString("?")
			}
		}
		buf.WriteString("\"")
	case *Term:
		fmt.Fprintf(buf, "<%s:%s>", v.ref(), v.sort)
	case *omap:
		if v == nil {
			buf.WriteString("map[]")
			return
		}
		buf.WriteString("map[")
		n := 0
		for _, e := range v.entries {
			if e.deleted {
				continue
			}
			if n > 0 {
				buf.WriteString(" ")
			}
			n++
			writeValue(buf, e.key, depth+1)
			buf.WriteString(":")
			writeValue(buf, e.val, depth+1)
		}
		buf.WriteString("]")
	case *channel:
		fmt.Fprintf(buf, "chan(%p)", v)
	case *value:
		if v == nil {
			buf.WriteString("<nil>")
		} else {
			fmt.Fprintf(buf, "&")
			writeValue(buf, *v, depth+1)
		}
	case iface:
		if v.t == nil {
			buf.WriteString("nil")
			return
		}
		fmt.Fprintf(buf, "(%s)", v.t)
		writeValue(buf, v.v, depth+1)
	case structure:
		buf.WriteString("{")
		for i, e := range v {
			if i > 0 {
				buf.WriteString(" ")
			}
			writeValue(buf, e, depth+1)
		}
		buf.WriteString("}")
	case array:
		buf.WriteString("[")
		for i, e := range v {
			if i > 0 {
				buf.WriteString(" ")
			}
			writeValue(buf, e, depth+1)
		}
		buf.WriteString("]")
	case []value:
		buf.WriteString("[")
		for i, e := range v {
			if i > 0 {
				buf.WriteString(" ")
			}
			if i > 32 {
				buf.WriteString("...")
				break
			}
			writeValue(buf, e, depth+1)
		}
		buf.WriteString("]")
	case *ssa.Function:
		if v == nil {
			buf.WriteString("func(nil)")
		} else {
			buf.WriteString("func " + v.String())
		}
	case *closure:
		buf.WriteString("closure " + v.Fn.String())
	case *ssa.Builtin:
		buf.WriteString("builtin " + v.Name())
	case tuple:
		buf.WriteString("(")
		for i, e := range v {
			if i > 0 {
				buf.WriteString(", ")
			}
			writeValue(buf, e, depth+1)
		}
		buf.WriteString(")")
	case rtype:
		buf.WriteString(v.t.String())
	case upointer:
		buf.WriteString("unsafe.Pointer(")
		writeValue(buf, v.p, depth+1)
		buf.WriteString(")")
	default:
		fmt.Fprintf(buf, "<%T>", v)
	}
}
