package main

// Minimal model of reflect.Value for values that arrive through reflect.ValueOf: Kind, Len,
// IsValid, IsNil, Interface, String, Type. Enough for "length of whatever this is" helpers; any
// other method is reported as unsupported.

import (
	"go/types"
	"reflect"
)

// rvalue stands for a reflect.Value (the struct is never looked into by interpreted code).
type rvalue struct{ x iface }

func init() {
	intrinsics["reflect.ValueOf"] = func(i *Interp, fr *frame, a []value) value {
		return rvalue{x: a[0].(iface)}
	}
	rv := func(a []value) rvalue {
		if r, ok := a[0].(rvalue); ok {
			return r
		}
		return rvalue{}
	}
	intrinsics["(reflect.Value).IsValid"] = func(i *Interp, fr *frame, a []value) value { return rv(a).x.t != nil }
	intrinsics["(reflect.Value).Kind"] = func(i *Interp, fr *frame, a []value) value {
		r := rv(a)
		if r.x.t == nil {
			return int64(reflect.Invalid)
		}
		return int64(kindOf(r.x.t))
	}
	intrinsics["(reflect.Value).Type"] = func(i *Interp, fr *frame, a []value) value {
		r := rv(a)
		if r.x.t == nil {
			i.runtimePanic(fr, "reflect: call of reflect.Value.Type on zero Value")
		}
		return mkRtype(r.x.t)
	}
	intrinsics["(reflect.Value).Interface"] = func(i *Interp, fr *frame, a []value) value { return rv(a).x }
	intrinsics["(reflect.Value).Len"] = func(i *Interp, fr *frame, a []value) value {
		r := rv(a)
		if r.x.t == nil {
			i.runtimePanic(fr, "reflect: call of reflect.Value.Len on zero Value")
		}
		switch r.x.t.Underlying().(type) {
		case *types.Slice:
			if s, ok := r.x.v.([]value); ok {
				return int64(len(s))
			}
			return int64(0)
		case *types.Array:
			return int64(len(r.x.v.(array)))
		case *types.Map:
			if m, ok := r.x.v.(*omap); ok && m != nil {
				return int64(m.n)
			}
			return int64(0)
		case *types.Chan:
			if c, ok := r.x.v.(*channel); ok && c != nil {
				return int64(len(c.buf))
			}
			return int64(0)
		case *types.Basic:
			if kindOf(r.x.t) == reflect.String {
				return int64(strLen(r.x.v))
			}
		}
		i.runtimePanic(fr, "reflect: call of reflect.Value.Len on "+kindOf(r.x.t).String()+" Value")
		return nil
	}
	intrinsics["(reflect.Value).IsNil"] = func(i *Interp, fr *frame, a []value) value {
		r := rv(a)
		switch v := r.x.v.(type) {
		case nil:
			return true
		case []value:
			return v == nil
		case *omap:
			return v == nil
		case *value:
			return v == nil
		case *channel:
			return v == nil
		case iface:
			return v.t == nil
		}
		return false
	}
	intrinsics["(reflect.Value).String"] = func(i *Interp, fr *frame, a []value) value {
		r := rv(a)
		if r.x.t != nil && kindOf(r.x.t) == reflect.String {
			return r.x.v
		}
		if r.x.t == nil {
			return "<invalid Value>"
		}
		return "<" + r.x.t.String() + " Value>"
	}
}
