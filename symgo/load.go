package main

// Loading the current working tree of /repo (plus overlay harness files) into go/ssa.
// Nothing is cached between runs: the SSA is rebuilt from source every time.

import (
	"fmt"
	"go/types"
	"os"
	"path/filepath"
	"strings"

	"golang.org/x/tools/go/packages"
	"golang.org/x/tools/go/ssa"
	"golang.org/x/tools/go/ssa/ssautil"
)

type Loaded struct {
	prog             *ssa.Program
	pkgs             []*ssa.Package
	byPath           map[string]*ssa.Package
	runtimeErrorType types.Type
	plainErrorType   types.Type
	errorStringPtr   types.Type
	wrapErrorPtr     types.Type
}

// loadProgram loads the given package patterns from repoDir with the overlay applied.
func loadProgram(repoDir string, overlay map[string][]byte, patterns []string, tags string) (*Loaded, error) {
	cfg := &packages.Config{
		Mode: packages.NeedName | packages.NeedFiles | packages.NeedCompiledGoFiles | packages.NeedImports |
			packages.NeedDeps | packages.NeedTypes | packages.NeedSyntax | packages.NeedTypesInfo | packages.NeedTypesSizes | packages.NeedModule,
		Dir:     repoDir,
		Overlay: overlay,
		Env:     append(os.Environ(), "GOFLAGS=-mod=mod", "GOPROXY=off", "CGO_ENABLED=0"),
	}
	if tags != "" {
		cfg.BuildFlags = []string{"-tags=" + tags}
	}
	initial, err := packages.Load(cfg, patterns...)
	if err != nil {
		return nil, err
	}
	var errs []string
	packages.Visit(initial, nil, func(p *packages.Package) {
		for _, e := range p.Errors {
			// only errors in murex packages matter (harness no longer compiles, etc.)
			errs = append(errs, e.Error())
		}
	})
	if len(errs) > 0 {
		if len(errs) > 10 {
			errs = errs[:10]
		}
		return nil, fmt.Errorf("package load errors:\n%s", strings.Join(errs, "\n"))
	}
	prog, pkgs := ssautil.AllPackages(initial, ssa.InstantiateGenerics|ssa.SanityCheckFunctions&0)
	prog.Build()
	ld := &Loaded{prog: prog, pkgs: pkgs, byPath: map[string]*ssa.Package{}}
	for _, p := range prog.AllPackages() {
		ld.byPath[p.Pkg.Path()] = p
	}
	rtp := ld.byPath["runtime"]
	if rtp == nil {
		return nil, fmt.Errorf("runtime package not loaded")
	}
	ld.runtimeErrorType = rtp.Type("errorString").Object().Type()
	if pe := rtp.Type("plainError"); pe != nil {
		ld.plainErrorType = pe.Object().Type()
	}
	if ep := ld.byPath["errors"]; ep != nil {
		ld.errorStringPtr = types.NewPointer(ep.Type("errorString").Object().Type())
	}
	if fp := ld.byPath["fmt"]; fp != nil {
		if m := fp.Type("wrapError"); m != nil {
			ld.wrapErrorPtr = types.NewPointer(m.Object().Type())
		}
	}
	return ld, nil
}

// buildOverlay maps harness files into the repository tree.
// files: map from repo-relative virtual path to real file path.
func buildOverlay(repoDir string, files map[string]string) (map[string][]byte, error) {
	ov := map[string][]byte{}
	for virt, real := range files {
		b, err := os.ReadFile(real)
		if err != nil {
			return nil, err
		}
		ov[filepath.Join(repoDir, virt)] = b
	}
	return ov, nil
}
