package main

// symgo selftest: small programs with known outcomes (translator validation).

import (
	"fmt"
	"path/filepath"
)

type stCase struct {
	fn        string
	violation bool
}

var stCases = []stCase{
	{"T1", true}, {"T3", false}, {"T4", false}, {"T5", true}, {"T6", false}, {"T7", false}, {"T8", true}, {"T9", false},
	{"T10", true}, {"T11", true}, {"T12", false},
}

func runSelftest() int {
	vdir := verifDir()
	fm := map[string]string{
		"zzverif/rt/rt.go":       filepath.Join(vdir, "rt", "rt.go"),
		"zzverif/selftest/st.go":      filepath.Join(vdir, "selftest", "st.go"),
		"zzverif/selftest/vectors.go": filepath.Join(vdir, "selftest", "vectors.go"),
	}
	ov, err := buildOverlay(repoDir(), fm)
	if err != nil {
		fmt.Println("selftest:", err)
		return 2
	}
	ld, err := loadProgram(repoDir(), ov, []string{"github.com/lmorg/murex/zzverif/selftest"}, "")
	if err != nil {
		fmt.Println("selftest:", err)
		return 2
	}
	p := ld.byPath["github.com/lmorg/murex/zzverif/selftest"]
	bad := 0
	for _, c := range stCases {
		fn := p.Func(c.fn)
		if fn == nil {
			fmt.Println("selftest: missing", c.fn)
			bad++
			continue
		}
		cfg := defaultConfig()
		cfg.Workers = 4
		st := Explore(ld, fn, cfg)
		got := len(st.Violations) > 0
		clean := len(st.Unsupported) == 0 && len(st.EngineErrors) == 0 && len(st.BoundHits) == 0 && len(st.SolverErrors) == 0
		status := "ok"
		if got != c.violation || !clean {
			status = "FAILED"
			bad++
		}
		fmt.Printf("selftest %s: %s (violation=%v expected=%v paths=%d unsupported=%v engine=%v bounds=%v)\n", c.fn, status, got, c.violation, st.Paths, st.Unsupported, st.EngineErrors, st.BoundHits)
	}
	// resource bounds: an allocating endless loop must end as a bound hit, not as a pass
	if fn := p.Func("T13"); fn != nil {
		cfg := defaultConfig()
		cfg.Workers = 1
		cfg.MaxSteps = 1_000_000
		st := Explore(ld, fn, cfg)
		if len(st.BoundHits) == 0 || len(st.Violations) > 0 || st.Completed > 0 {
			fmt.Printf("selftest T13: FAILED (bounds=%v completed=%d)\n", st.BoundHits, st.Completed)
			bad++
		} else {
			fmt.Printf("selftest T13: ok (cut by: %v)\n", st.BoundHits)
		}
	}
	// differential corpus: engine (concrete mode) against the natively compiled code
	spec := &Spec{Package: "github.com/lmorg/murex/zzverif/selftest", Files: map[string]string{
		"zzverif/selftest/st.go": "st.go", "zzverif/selftest/vectors.go": "vectors.go"}}
	nv, err := validateVectors(vdir, spec, filepath.Join(vdir, "selftest"), HarnessSpec{VectorsFunc: "VerifSelfVectors"}, ld)
	if err != nil {
		fmt.Println("selftest vectors: FAILED:", err)
		bad++
	} else {
		fmt.Printf("selftest vectors: ok (%d lines identical in the engine and natively)\n", nv)
	}
	if bad > 0 {
		return 1
	}
	fmt.Println("selftest: all passed")
	return 0
}
