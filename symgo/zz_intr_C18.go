package main

// Helper-added model (property C18): fmt.Sprintf("%0Nd", x) for a *symbolic* integer x.
// The stock model prints symbolic numbers as "<sym>" (approximate). mkarray's zero-padded ranges
// (builtins/core/mkarray/range.go) format exactly this way, so an exact model is needed:
// the digits come from interpreting the real strconv.Itoa on x (forks on the digit count), then
// zeros are inserted after an optional '-' up to width N, as fmt does.
// Every other call is delegated unchanged to the stock fmt.Sprintf model.
// The file name starts with zz_ because it must be initialised after native.go, which
// registers the stock model in its init().

import (
	"go/types"
	"regexp"
	"strconv"
)

var c18padFormat = regexp.MustCompile(`^%0([0-9]{1,3})d$`)

func init() {
	stock := intrinsics["fmt.Sprintf"]
	if stock == nil {
		return
	}
	intrinsics["fmt.Sprintf"] = func(i *Interp, fr *frame, a []value) value {
		f, ok := a[0].(string)
		if !ok {
			return stock(i, fr, a)
		}
		m := c18padFormat.FindStringSubmatch(f)
		args, ok2 := a[1].([]value)
		if m == nil || !ok2 || len(args) != 1 {
			return stock(i, fr, a)
		}
		it, ok := args[0].(iface)
		if !ok {
			return stock(i, fr, a)
		}
		b, _ := it.t.Underlying().(*types.Basic)
		t, isTerm := it.v.(*Term)
		if !isTerm || b == nil || b.Kind() != types.Int {
			return stock(i, fr, a)
		}
		pkg := i.ld.byPath["strconv"]
		if pkg == nil || pkg.Func("Itoa") == nil {
			return stock(i, fr, a)
		}
		width, _ := strconv.Atoi(m[1])
		digits := strBytes(i.callSSA(fr, 0, pkg.Func("Itoa"), []value{t}, nil))
		var sign []value
		if len(digits) > 0 {
			if c, ok := digits[0].(int64); ok && c == '-' {
				sign, digits = digits[:1], digits[1:]
			}
		}
		out := append([]value{}, sign...)
		for k := len(sign) + len(digits); k < width; k++ {
			out = append(out, int64('0'))
		}
		out = append(out, digits...)
		return mkStr(out)
	}
}
