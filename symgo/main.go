package main

import (
	"encoding/json"
	"flag"
	"fmt"
	"os"
	"path/filepath"
	"runtime"
	"runtime/pprof"
	"strconv"
	"strings"
	"time"
)

func main() {
	if len(os.Args) < 2 {
		fmt.Fprintln(os.Stderr, "usage: symgo run|check|selftest ...")
		os.Exit(2)
	}
	switch os.Args[1] {
	case "run":
		os.Exit(cmdRun(os.Args[2:]))
	case "check":
		os.Exit(cmdCheck(os.Args[2:]))
	case "selftest":
		os.Exit(cmdSelftest(os.Args[2:]))
	default:
		fmt.Fprintln(os.Stderr, "unknown command", os.Args[1])
		os.Exit(2)
	}
}

type multiFlag []string

func (m *multiFlag) String() string     { return strings.Join(*m, ",") }
func (m *multiFlag) Set(s string) error { *m = append(*m, s); return nil }

func defaultConfig() *RunConfig {
	return &RunConfig{
		MaxSteps:      20_000_000,
		MaxDecisions:  4000,
		MaxCallDepth:  400,
		MaxThreads:    64,
		MaxPolls:      64,
		MaxViolations: 1,
		Workers:       1,
		SolverKind:    "z3",
		SolverTimeout: 60 * time.Second,
		Params:        map[string]int64{},
	}
}

func verifDir() string {
	if d := os.Getenv("VERIF_DIR"); d != "" {
		return d
	}
	exe, err := os.Executable()
	if err == nil {
		d := filepath.Dir(filepath.Dir(exe))
		if _, err := os.Stat(filepath.Join(d, "rt", "rt.go")); err == nil {
			return d
		}
	}
	return "/verif"
}

func repoDir() string {
	if d := os.Getenv("VERIF_REPO"); d != "" {
		return d
	}
	return "/repo"
}

// cmdRun: development entry point.
func cmdRun(args []string) int {
	fs := flag.NewFlagSet("run", flag.ExitOnError)
	pkg := fs.String("pkg", "", "import path of the package holding the harness")
	fn := fs.String("func", "", "harness function")
	var files, params multiFlag
	fs.Var(&files, "file", "virtual=real overlay file (repeatable)")
	fs.Var(&params, "param", "name=int (repeatable)")
	workers := fs.Int("workers", 1, "parallel workers")
	trace := fs.Bool("trace", false, "trace calls")
	verbose := fs.Bool("v", false, "verbose")
	solver := fs.String("solver", "z3", "z3|z3-new|cvc5")
	smtlog := fs.String("smtlog", "", "write the SMT dialogue of worker 0 here")
	hang := fs.Bool("hang", false, "bound hits are findings")
	maxv := fs.Int("maxv", 1, "stop after this many violations")
	twin := fs.Bool("twin", false, "vacuity twin")
	steps := fs.Int64("steps", 0, "max steps per path")
	extra := fs.String("extra", "", "comma separated extra packages to load")
	cpuprof := fs.String("cpuprofile", "", "write a CPU profile of the exploration here")
	knownIDs := fs.String("known", "", "comma separated rt.KnownFinding ids to treat as open (their inputs are set aside)")
	only := fs.String("only", "", "explore only the inputs of this rt.KnownFinding id")
	fs.Parse(args)
	if *cpuprof != "" {
		f, err := os.Create(*cpuprof)
		if err == nil {
			pprof.StartCPUProfile(f)
			defer pprof.StopCPUProfile()
		}
	}

	cfg := defaultConfig()
	cfg.Workers = *workers
	cfg.Trace = *trace
	cfg.Verbose = *verbose
	cfg.SolverKind = *solver
	cfg.SMTLog = *smtlog
	cfg.HangIsFinding = *hang
	cfg.MaxViolations = *maxv
	cfg.Twin = *twin
	cfg.Known = map[string]bool{}
	for _, k := range strings.Split(*knownIDs, ",") {
		if k != "" {
			cfg.Known[k] = true
		}
	}
	if *only != "" {
		cfg.Known[*only] = true
		cfg.OnlyFinding = *only
	}
	if *steps > 0 {
		cfg.MaxSteps = *steps
	}
	for _, p := range params {
		kv := strings.SplitN(p, "=", 2)
		v, _ := strconv.ParseInt(kv[1], 10, 64)
		cfg.Params[kv[0]] = v
	}
	fm := map[string]string{"zzverif/rt/rt.go": filepath.Join(verifDir(), "rt", "rt.go")}
	for _, f := range files {
		kv := strings.SplitN(f, "=", 2)
		fm[kv[0]] = kv[1]
	}
	t0 := time.Now()
	ov, err := buildOverlay(repoDir(), fm)
	if err != nil {
		fmt.Fprintln(os.Stderr, err)
		return 2
	}
	pats := []string{*pkg}
	if *extra != "" {
		pats = append(pats, strings.Split(*extra, ",")...)
	}
	ld, err := loadProgram(repoDir(), ov, pats, "")
	if err != nil {
		fmt.Fprintln(os.Stderr, err)
		return 2
	}
	tload := time.Since(t0)
	p := ld.byPath[*pkg]
	if p == nil {
		fmt.Fprintln(os.Stderr, "package not found:", *pkg)
		return 2
	}
	h := p.Func(*fn)
	if h == nil {
		fmt.Fprintln(os.Stderr, "harness function not found:", *fn)
		return 2
	}
	t1 := time.Now()
	st := Explore(ld, h, cfg)
	fmt.Fprintf(os.Stderr, "load %.1fs explore %.1fs (%d goroutines)\n", tload.Seconds(), time.Since(t1).Seconds(), runtime.NumGoroutine())
	printStats(st)
	if len(st.Violations) > 0 {
		return 1
	}
	return 0
}

func printStats(st *Stats) {
	fmt.Printf("paths=%d completed=%d assume-ends=%d forks=%d decisions=%d obligations=%d discharged=%d queries=%d solver=%.2fs nontrivial=%d funcs=%d\n",
		st.Paths, st.Completed, st.AssumeEnds, st.Forks, st.Decisions, st.Obligations, st.Discharged, st.Queries, st.SolverSeconds, st.Nontrivial, len(st.Funcs))
	for k, v := range st.Unsupported {
		fmt.Printf("UNSUPPORTED x%d: %s\n", v, k)
	}
	for k, v := range st.BoundHits {
		fmt.Printf("BOUND x%d: %s\n", v, k)
	}
	for _, e := range st.EngineErrors {
		fmt.Printf("ENGINE-ERROR: %s\n", e)
	}
	for _, e := range st.SolverErrors {
		fmt.Printf("SOLVER-ERROR: %s\n", e)
	}
	for k, v := range st.Reached {
		fmt.Printf("reach %s: %d\n", k, v)
	}
	for k, v := range st.Approx {
		fmt.Printf("approx %s: %d\n", k, v)
	}
	for _, v := range st.Violations {
		b, _ := json.Marshal(v.Pretty)
		fmt.Printf("VIOLATION-CANDIDATE [%s] %s @ %s\n  model: %s\n  tags: %v\n", v.Kind, v.Msg, v.Where, b, v.Tags)
	}
	for k, s := range st.Samples {
		if k >= 3 {
			break
		}
		b, _ := json.Marshal(s)
		fmt.Printf("sample: %s\n", b)
	}
}
