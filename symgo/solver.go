package main

// One long-lived SMT solver process per worker (z3 -in / cvc5 --incremental),
// driven with push/pop. Declarations and term definitions are global so that they
// survive pop; every non-leaf term is defined once as (define-fun tN () Sort body).

import (
	"bufio"
	"fmt"
	"io"
	"math"
	"os/exec"
	"strconv"
	"strings"
	"time"
)

const (
	rSat = iota
	rUnsat
	rUnknown
)

type Solver struct {
	kind    string // "z3", "z3-new", "cvc5"
	cmd     *exec.Cmd
	in      io.WriteCloser
	out     *bufio.Reader
	emitted []bool
	Queries int
	Time    time.Duration
	Errors  []string
	Unknown int
	log     io.Writer
	timeout time.Duration
	dead    bool
	w       *bufio.Writer
	timedOut bool
}

func solverArgv(kind string, timeoutMs int) []string {
	switch kind {
	case "z3":
		return []string{"/usr/bin/z3", "-in", "-smt2"}
	case "z3-new":
		return []string{"z3-new", "-in", "-smt2"}
	case "cvc5":
		return []string{"cvc5", "--incremental", "--lang=smt2", "--produce-models", fmt.Sprintf("--tlimit-per=%d", timeoutMs)}
	}
	panic("unknown solver " + kind)
}

func newSolver(kind string, timeout time.Duration, log io.Writer) (*Solver, error) {
	argv := solverArgv(kind, int(timeout/time.Millisecond))
	cmd := exec.Command(argv[0], argv[1:]...)
	in, err := cmd.StdinPipe()
	if err != nil {
		return nil, err
	}
	outp, err := cmd.StdoutPipe()
	if err != nil {
		return nil, err
	}
	cmd.Stderr = nil
	if err := cmd.Start(); err != nil {
		return nil, err
	}
	s := &Solver{kind: kind, cmd: cmd, in: in, out: bufio.NewReaderSize(outp, 1<<16), log: log, timeout: timeout}
	s.w = bufio.NewWriterSize(in, 1<<16)
	s.send("(set-option :global-declarations true)")
	s.send("(set-option :produce-models true)")
	if kind != "cvc5" {
		s.send(fmt.Sprintf("(set-option :timeout %d)", int(timeout/time.Millisecond)))
	} else {
		s.send("(set-logic ALL)")
	}
	return s, nil
}

func (s *Solver) Close() {
	if s.dead {
		return
	}
	s.dead = true
	s.w.Flush()
	s.in.Close()
	done := make(chan struct{})
	go func() { s.cmd.Wait(); close(done) }()
	select {
	case <-done:
	case <-time.After(2 * time.Second):
		s.cmd.Process.Kill()
	}
}

func (s *Solver) send(line string) {
	if s.log != nil {
		fmt.Fprintln(s.log, line)
	}
	if s.dead {
		return
	}
	if _, err := s.w.WriteString(line + "\n"); err != nil {
		s.Errors = append(s.Errors, "write: "+err.Error())
		s.dead = true
	}
}

// emit makes sure t (and everything below it) is known to the solver.
func (s *Solver) emit(t *Term) {
	if t.op == "const" {
		return
	}
	if t.id < len(s.emitted) && s.emitted[t.id] {
		return
	}
	// iterative post-order
	type fr struct {
		t *Term
		i int
	}
	stack := []fr{{t, 0}}
	for len(stack) > 0 {
		top := &stack[len(stack)-1]
		if top.i < len(top.t.args) {
			a := top.t.args[top.i]
			top.i++
			if a.op != "const" && !(a.id < len(s.emitted) && s.emitted[a.id]) {
				stack = append(stack, fr{a, 0})
			}
			continue
		}
		x := top.t
		stack = stack[:len(stack)-1]
		if x.id < len(s.emitted) && s.emitted[x.id] {
			continue
		}
		for x.id >= len(s.emitted) {
			s.emitted = append(s.emitted, false)
		}
		s.emitted[x.id] = true
		if x.op == "var" {
			s.send(fmt.Sprintf("(declare-const %s %s)", x.ref(), x.sort))
		} else {
			s.send(fmt.Sprintf("(define-fun %s () %s %s)", x.ref(), x.sort, x.body()))
		}
	}
}

func (s *Solver) Push() { s.send("(push 1)") }
func (s *Solver) Pop()  { s.send("(pop 1)") }

func (s *Solver) Assert(t *Term) {
	s.emit(t)
	s.send("(assert " + t.ref() + ")")
}

func (s *Solver) readLine() (string, bool) {
	if s.w != nil {
		s.w.Flush()
	}
	timer := time.AfterFunc(s.timeout+30*time.Second, func() {
		s.timedOut = true
		s.cmd.Process.Kill()
	})
	l, err := s.out.ReadString('\n')
	timer.Stop()
	if err != nil {
		if s.timedOut {
			s.Errors = append(s.Errors, "solver hard timeout")
		} else {
			s.Errors = append(s.Errors, "solver read: "+err.Error())
		}
		s.dead = true
		return "", false
	}
	if s.log != nil {
		fmt.Fprint(s.log, "; <- ", l)
	}
	return strings.TrimSpace(l), true
}

// Check decides satisfiability of the current assertions plus the given assumptions.
func (s *Solver) Check(assume ...*Term) int {
	if s.dead {
		return rUnknown
	}
	for _, a := range assume {
		s.emit(a)
	}
	t0 := time.Now()
	s.Queries++
	if len(assume) == 0 {
		s.send("(check-sat)")
	} else {
		var sb strings.Builder
		sb.WriteString("(check-sat-assuming (")
		for i, a := range assume {
			if i > 0 {
				sb.WriteByte(' ')
			}
			// check-sat-assuming takes literals: named Booleans or their negation
			if a.op == "not" && a.args[0].op != "const" {
				sb.WriteString("(not " + a.args[0].ref() + ")")
			} else {
				sb.WriteString(a.ref())
			}
		}
		sb.WriteString("))")
		s.send(sb.String())
	}
	defer func() { s.Time += time.Since(t0) }()
	for {
		l, ok := s.readLine()
		if !ok {
			s.Unknown++
			return rUnknown
		}
		switch {
		case l == "sat":
			return rSat
		case l == "unsat":
			return rUnsat
		case l == "unknown" || l == "timeout":
			s.Unknown++
			return rUnknown
		case strings.HasPrefix(l, "(error"):
			s.Errors = append(s.Errors, l)
		case l == "":
		default:
			s.Errors = append(s.Errors, "unexpected solver output: "+l)
		}
	}
}

// Values returns the model values of the given variables after a sat answer.
// BV/Bool values are returned as uint64, FP as IEEE bits.
func (s *Solver) Values(vars []*Term) (map[string]uint64, bool) {
	res := map[string]uint64{}
	if len(vars) == 0 {
		return res, true
	}
	for start := 0; start < len(vars); start += 200 {
		end := start + 200
		if end > len(vars) {
			end = len(vars)
		}
		var sb strings.Builder
		sb.WriteString("(get-value (")
		for _, v := range vars[start:end] {
			s.emit(v)
			sb.WriteString(v.ref())
			sb.WriteByte(' ')
		}
		sb.WriteString("))")
		s.send(sb.String())
		// read until balanced
		depth, started := 0, false
		var buf strings.Builder
		for !started || depth > 0 {
			l, ok := s.readLine()
			if !ok {
				return nil, false
			}
			if strings.HasPrefix(l, "(error") {
				s.Errors = append(s.Errors, l)
				return nil, false
			}
			inBar := false
			for _, c := range l {
				switch {
				case c == '|':
					inBar = !inBar
				case inBar:
				case c == '(':
					depth++
					started = true
				case c == ')':
					depth--
				}
			}
			buf.WriteString(l)
			buf.WriteByte(' ')
		}
		sx, _, err := parseSexp(buf.String(), 0)
		if err != nil {
			s.Errors = append(s.Errors, "get-value parse: "+err.Error())
			return nil, false
		}
		for _, pair := range sx.list {
			if len(pair.list) != 2 {
				continue
			}
			name := strings.TrimPrefix(strings.Trim(pair.list[0].atom, "|"), "in.")
			v, ok := sexpValue(pair.list[1])
			if !ok {
				s.Errors = append(s.Errors, "get-value: cannot parse value for "+name+": "+pair.list[1].String())
				return nil, false
			}
			res[name] = v
		}
	}
	return res, true
}

type sexp struct {
	atom string
	list []*sexp
	isL  bool
}

func (s *sexp) String() string {
	if !s.isL {
		return s.atom
	}
	parts := []string{}
	for _, x := range s.list {
		parts = append(parts, x.String())
	}
	return "(" + strings.Join(parts, " ") + ")"
}

func parseSexp(src string, i int) (*sexp, int, error) {
	for i < len(src) && (src[i] == ' ' || src[i] == '\n' || src[i] == '\t' || src[i] == '\r') {
		i++
	}
	if i >= len(src) {
		return nil, i, fmt.Errorf("eof")
	}
	if src[i] == '(' {
		i++
		n := &sexp{isL: true}
		for {
			for i < len(src) && (src[i] == ' ' || src[i] == '\n' || src[i] == '\t' || src[i] == '\r') {
				i++
			}
			if i >= len(src) {
				return nil, i, fmt.Errorf("unbalanced")
			}
			if src[i] == ')' {
				return n, i + 1, nil
			}
			c, j, err := parseSexp(src, i)
			if err != nil {
				return nil, j, err
			}
			n.list = append(n.list, c)
			i = j
		}
	}
	j := i
	if src[i] == '|' {
		j = i + 1
		for j < len(src) && src[j] != '|' {
			j++
		}
		j++
		return &sexp{atom: src[i:j]}, j, nil
	}
	for j < len(src) && src[j] != ' ' && src[j] != ')' && src[j] != '(' && src[j] != '\n' {
		j++
	}
	return &sexp{atom: src[i:j]}, j, nil
}

func parseBVLit(a string) (uint64, int, bool) {
	if strings.HasPrefix(a, "#x") {
		v, err := strconv.ParseUint(a[2:], 16, 64)
		return v, 4 * (len(a) - 2), err == nil
	}
	if strings.HasPrefix(a, "#b") {
		v, err := strconv.ParseUint(a[2:], 2, 64)
		return v, len(a) - 2, err == nil
	}
	return 0, 0, false
}

func sexpValue(x *sexp) (uint64, bool) {
	if !x.isL {
		switch x.atom {
		case "true":
			return 1, true
		case "false":
			return 0, true
		}
		v, _, ok := parseBVLit(x.atom)
		return v, ok
	}
	if len(x.list) == 4 && x.list[0].atom == "fp" {
		sg, _, ok1 := parseBVLit(x.list[1].atom)
		ex, ew, ok2 := parseBVLit(x.list[2].atom)
		mt, mw, ok3 := parseBVLit(x.list[3].atom)
		if !(ok1 && ok2 && ok3) {
			return 0, false
		}
		return sg<<uint(ew+mw) | ex<<uint(mw) | mt, true
	}
	if len(x.list) == 4 && x.list[0].atom == "_" {
		// (_ +zero 11 53) (_ -zero ..) (_ +oo ..) (_ -oo ..) (_ NaN ..)
		eb, _ := strconv.Atoi(x.list[2].atom)
		var f float64
		switch x.list[1].atom {
		case "+zero":
			f = 0
		case "-zero":
			f = math.Copysign(0, -1)
		case "+oo":
			f = math.Inf(1)
		case "-oo":
			f = math.Inf(-1)
		case "NaN":
			f = math.NaN()
		default:
			// (_ bv123 64)
			if strings.HasPrefix(x.list[1].atom, "bv") {
				v, err := strconv.ParseUint(x.list[1].atom[2:], 10, 64)
				return v, err == nil
			}
			return 0, false
		}
		if eb == 8 {
			return uint64(math.Float32bits(float32(f))), true
		}
		return math.Float64bits(f), true
	}
	if len(x.list) == 3 && x.list[0].atom == "_" && strings.HasPrefix(x.list[1].atom, "bv") {
		v, err := strconv.ParseUint(x.list[1].atom[2:], 10, 64)
		return v, err == nil
	}
	return 0, false
}
