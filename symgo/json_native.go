package main

// encoding/json for concrete values: encoding is done by the engine over its own value
// representation (field order, tags, omitempty, sorted map keys as in Go; scalars are
// formatted by the native encoding/json), decoding uses the native tokenizer and builds
// typed engine values. Symbolic contents are unsupported (the path ends).

import (
	"bytes"
	"encoding/json"
	"fmt"
	"go/types"
	"reflect"
	"sort"
	"strings"
)

var (
	tEmptyIface = types.NewInterfaceType(nil, nil).Complete()
	tString     = types.Typ[types.String]
	tFloat64    = types.Typ[types.Float64]
	tBool       = types.Typ[types.Bool]
	tMapSI      = types.NewMap(tString, tEmptyIface)
	tSliceI     = types.NewSlice(tEmptyIface)
)

type jsonEnc struct {
	i   *Interp
	fr  *frame
	buf bytes.Buffer
	err string
}

func (e *jsonEnc) scalar(x interface{}) {
	b, err := json.Marshal(x)
	if err != nil {
		e.err = err.Error()
		return
	}
	e.buf.Write(b)
}

func jsonFieldName(f *types.Var, tag string) (name string, omitempty, skip, asString bool) {
	name = f.Name()
	if !f.Exported() {
		return "", false, true, false
	}
	st := reflect.StructTag(tag)
	if js, ok := st.Lookup("json"); ok {
		parts := strings.Split(js, ",")
		if parts[0] == "-" && len(parts) == 1 {
			return "", false, true, false
		}
		if parts[0] != "" {
			name = parts[0]
		}
		for _, o := range parts[1:] {
			if o == "omitempty" {
				omitempty = true
			}
			if o == "string" {
				asString = true
			}
		}
	}
	return
}

func isEmptyValue(v value) bool {
	switch x := v.(type) {
	case bool:
		return !x
	case int64:
		return x == 0
	case float64:
		return x == 0
	case float32:
		return x == 0
	case string:
		return x == ""
	case []value:
		return len(x) == 0
	case *omap:
		return x == nil || x.n == 0
	case *value:
		return x == nil
	case iface:
		return x.t == nil
	case array:
		return len(x) == 0
	}
	return false
}

func (e *jsonEnc) encode(v value, t types.Type, depth int) {
	if e.err != "" {
		return
	}
	if depth > 64 {
		e.err = "json: nesting too deep (cycle?)"
		return
	}
	i := e.i
	if it, ok := v.(iface); ok {
		if it.t == nil {
			e.buf.WriteString("null")
			return
		}
		e.encode(it.v, it.t, depth+1)
		return
	}
	if t != nil {
		if _, isExt := t.(*extType); !isExt {
			if m := i.findMethod(t, "MarshalJSON"); m != nil {
				if p, ok := v.(*value); ok && p == nil {
					e.buf.WriteString("null")
					return
				}
				r := i.call(e.fr, 0, m, []value{v}).(tuple)
				if er := r[1].(iface); er.t != nil {
					e.err = "json: error calling MarshalJSON"
					return
				}
				bs := mkStr(r[0].([]value))
				s, ok := bs.(string)
				if !ok {
					i.unsupported("json.Marshal: symbolic MarshalJSON output")
				}
				e.buf.WriteString(s)
				return
			}
			if m := i.findMethod(t, "MarshalText"); m != nil {
				r := i.call(e.fr, 0, m, []value{v}).(tuple)
				if s, ok := mkStr(r[0].([]value)).(string); ok {
					e.scalar(s)
					return
				}
			}
		}
	}
	switch x := v.(type) {
	case nil:
		e.buf.WriteString("null")
	case bool:
		e.scalar(x)
	case int64:
		if k, ok := intInfo(t); ok && !k.signed && k.w == 64 {
			e.scalar(uint64(x))
		} else {
			e.scalar(x)
		}
	case float64:
		e.scalar(x)
	case float32:
		e.scalar(x)
	case string:
		e.scalar(x)
	case *symstr, *Term:
		i.unsupported("json.Marshal of a symbolic value")
	case *value:
		if x == nil {
			e.buf.WriteString("null")
			return
		}
		var et types.Type
		if t != nil {
			if pt, ok := t.Underlying().(*types.Pointer); ok {
				et = pt.Elem()
			}
		}
		e.encode(*x, et, depth+1)
	case []value:
		if x == nil {
			e.buf.WriteString("null")
			return
		}
		var et types.Type
		if t != nil {
			if st, ok := t.Underlying().(*types.Slice); ok {
				et = st.Elem()
			}
		}
		if b := basicOf(et); b != nil && b.Kind() == types.Uint8 {
			s, ok := mkStr(x).(string)
			if !ok {
				i.unsupported("json.Marshal of symbolic bytes")
			}
			e.scalar([]byte(s))
			return
		}
		e.buf.WriteByte('[')
		for k := range x {
			if k > 0 {
				e.buf.WriteByte(',')
			}
			e.encode(x[k], et, depth+1)
		}
		e.buf.WriteByte(']')
	case array:
		var et types.Type
		if t != nil {
			if at, ok := t.Underlying().(*types.Array); ok {
				et = at.Elem()
			}
		}
		e.buf.WriteByte('[')
		for k := range x {
			if k > 0 {
				e.buf.WriteByte(',')
			}
			e.encode(x[k], et, depth+1)
		}
		e.buf.WriteByte(']')
	case *omap:
		if x == nil {
			e.buf.WriteString("null")
			return
		}
		var kt, vt types.Type
		if x.t != nil {
			kt, vt = x.t.Key(), x.t.Elem()
		}
		type kv struct {
			k string
			v value
		}
		var kvs []kv
		for _, en := range x.liveEntries() {
			var ks string
			key := en.key
			if it, ok := key.(iface); ok {
				e.err = "json: unsupported type: " + x.t.String()
				_ = it
				return
			}
			switch kk := key.(type) {
			case string:
				ks = kk
			case int64:
				if k, ok := intInfo(kt); ok && !k.signed && k.w == 64 {
					ks = fmt.Sprint(uint64(kk))
				} else {
					ks = fmt.Sprint(kk)
				}
			case *symstr, *Term:
				i.unsupported("json.Marshal of a map with symbolic keys")
			default:
				e.err = "json: unsupported type: " + x.t.String()
				return
			}
			kvs = append(kvs, kv{ks, en.val})
		}
		sort.Slice(kvs, func(a, b int) bool { return kvs[a].k < kvs[b].k })
		e.buf.WriteByte('{')
		for k, p := range kvs {
			if k > 0 {
				e.buf.WriteByte(',')
			}
			e.scalar(p.k)
			e.buf.WriteByte(':')
			e.encode(p.v, vt, depth+1)
		}
		e.buf.WriteByte('}')
	case structure:
		var st *types.Struct
		if t != nil {
			st, _ = t.Underlying().(*types.Struct)
		}
		if st == nil {
			e.err = "json: struct of unknown type"
			return
		}
		e.buf.WriteByte('{')
		first := true
		var emit func(x structure, st *types.Struct)
		emit = func(x structure, st *types.Struct) {
			for k := 0; k < st.NumFields(); k++ {
				f := st.Field(k)
				if f.Embedded() {
					if es, ok := f.Type().Underlying().(*types.Struct); ok {
						if sv, ok := x[k].(structure); ok {
							emit(sv, es)
							continue
						}
					}
				}
				name, omit, skip, asString := jsonFieldName(f, st.Tag(k))
				if skip || (omit && isEmptyValue(x[k])) {
					continue
				}
				if !first {
					e.buf.WriteByte(',')
				}
				first = false
				e.scalar(name)
				e.buf.WriteByte(':')
				if asString {
					var tmp jsonEnc
					tmp.i, tmp.fr = e.i, e.fr
					tmp.encode(x[k], f.Type(), depth+1)
					if _, isStr := x[k].(string); isStr {
						e.scalar(tmp.buf.String())
					} else {
						e.scalar(tmp.buf.String())
					}
				} else {
					e.encode(x[k], f.Type(), depth+1)
				}
			}
		}
		emit(x, st)
		e.buf.WriteByte('}')
	default:
		if t != nil {
			e.err = "json: unsupported type: " + t.String()
		} else {
			e.err = fmt.Sprintf("json: unsupported value %T", v)
		}
	}
}

func bytesValue(b []byte) []value {
	res := make([]value, len(b))
	for k, c := range b {
		res[k] = int64(c)
	}
	return res
}

func concreteBytes(i *Interp, v value, what string) []byte {
	var s value
	switch x := v.(type) {
	case []value:
		s = mkStr(x)
	default:
		s = x
	}
	cs, ok := s.(string)
	if !ok {
		i.unsupported("%s on symbolic data", what)
	}
	return []byte(cs)
}

// ---- decoding

type jsonDec struct {
	i   *Interp
	fr  *frame
	dec *json.Decoder
}

// readValue parses the next JSON value into a generic tree preserving key order.
type jnode struct {
	kind byte // 'n' null, 'b' bool, 'N' number, 's' string, 'a' array, 'o' object
	b    bool
	num  json.Number
	s    string
	arr  []*jnode
	keys []string
	vals []*jnode
}

func (d *jsonDec) read() (*jnode, error) {
	tok, err := d.dec.Token()
	if err != nil {
		return nil, err
	}
	switch t := tok.(type) {
	case nil:
		return &jnode{kind: 'n'}, nil
	case bool:
		return &jnode{kind: 'b', b: t}, nil
	case json.Number:
		return &jnode{kind: 'N', num: t}, nil
	case string:
		return &jnode{kind: 's', s: t}, nil
	case json.Delim:
		switch t {
		case '[':
			n := &jnode{kind: 'a'}
			for d.dec.More() {
				c, err := d.read()
				if err != nil {
					return nil, err
				}
				n.arr = append(n.arr, c)
			}
			if _, err := d.dec.Token(); err != nil {
				return nil, err
			}
			return n, nil
		case '{':
			n := &jnode{kind: 'o'}
			for d.dec.More() {
				kt, err := d.dec.Token()
				if err != nil {
					return nil, err
				}
				ks, _ := kt.(string)
				c, err := d.read()
				if err != nil {
					return nil, err
				}
				// duplicate keys: last one wins, position of the first
				dup := false
				for k := range n.keys {
					if n.keys[k] == ks {
						n.vals[k] = c
						dup = true
					}
				}
				if !dup {
					n.keys = append(n.keys, ks)
					n.vals = append(n.vals, c)
				}
			}
			if _, err := d.dec.Token(); err != nil {
				return nil, err
			}
			return n, nil
		}
	}
	return nil, fmt.Errorf("json: unexpected token %v", tok)
}

// build converts a node into an engine value of static type t. cur is the current value
// of the destination (used for structs/pointers, as encoding/json merges into them).
func (d *jsonDec) build(n *jnode, t types.Type, cur value) (value, error) {
	i := d.i
	typeErr := func(what string) error {
		return fmt.Errorf("json: cannot unmarshal %s into Go value of type %s", what, t.String())
	}
	switch u := t.Underlying().(type) {
	case *types.Interface:
		if u.NumMethods() > 0 {
			return nil, typeErr("value")
		}
		switch n.kind {
		case 'n':
			return iface{}, nil
		case 'b':
			return iface{tBool, n.b}, nil
		case 'N':
			f, err := n.num.Float64()
			if err != nil {
				return nil, err
			}
			return iface{tFloat64, f}, nil
		case 's':
			return iface{tString, n.s}, nil
		case 'a':
			s := make([]value, len(n.arr))
			for k, c := range n.arr {
				v, err := d.build(c, tEmptyIface, nil)
				if err != nil {
					return nil, err
				}
				s[k] = v
			}
			return iface{tSliceI, s}, nil
		case 'o':
			m := newOmap(tMapSI)
			for k := range n.keys {
				v, err := d.build(n.vals[k], tEmptyIface, nil)
				if err != nil {
					return nil, err
				}
				i.mapInsert(d.fr, m, n.keys[k], v)
			}
			return iface{tMapSI, m}, nil
		}
	case *types.Basic:
		if n.kind == 'n' {
			return cur, nil
		}
		switch {
		case u.Kind() == types.Bool:
			if n.kind != 'b' {
				return nil, typeErr(kindName(n))
			}
			return n.b, nil
		case u.Info()&types.IsString != 0:
			if n.kind != 's' {
				return nil, typeErr(kindName(n))
			}
			return n.s, nil
		case u.Info()&types.IsInteger != 0:
			if n.kind != 'N' {
				return nil, typeErr(kindName(n))
			}
			k, _ := intInfo(t)
			if k.signed {
				v, err := n.num.Int64()
				if err != nil || k.norm(v) != v {
					return nil, typeErr("number " + n.num.String())
				}
				return v, nil
			}
			var uv uint64
			if _, err := fmt.Sscan(n.num.String(), &uv); err != nil || strings.ContainsAny(n.num.String(), ".eE-") {
				return nil, typeErr("number " + n.num.String())
			}
			if k.norm(int64(uv)) != int64(uv) {
				return nil, typeErr("number " + n.num.String())
			}
			return int64(uv), nil
		case u.Info()&types.IsFloat != 0:
			if n.kind != 'N' {
				return nil, typeErr(kindName(n))
			}
			f, err := n.num.Float64()
			if err != nil {
				return nil, err
			}
			if u.Kind() == types.Float32 {
				return float32(f), nil
			}
			return f, nil
		}
	case *types.Slice:
		if n.kind == 'n' {
			return []value(nil), nil
		}
		if b := basicOf(u.Elem()); b != nil && b.Kind() == types.Uint8 && n.kind == 's' {
			var bs []byte
			if err := json.Unmarshal([]byte(`"`+n.s+`"`), &bs); err != nil {
				return nil, err
			}
			return bytesValue(bs), nil
		}
		if n.kind != 'a' {
			return nil, typeErr(kindName(n))
		}
		s := make([]value, len(n.arr))
		for k, c := range n.arr {
			v, err := d.build(c, u.Elem(), zero(u.Elem()))
			if err != nil {
				return nil, err
			}
			s[k] = v
		}
		return s, nil
	case *types.Array:
		if n.kind != 'a' {
			return nil, typeErr(kindName(n))
		}
		a := zero(t).(array)
		for k := range a {
			if k < len(n.arr) {
				v, err := d.build(n.arr[k], u.Elem(), a[k])
				if err != nil {
					return nil, err
				}
				a[k] = v
			}
		}
		return a, nil
	case *types.Map:
		if n.kind == 'n' {
			return (*omap)(nil), nil
		}
		if n.kind != 'o' {
			return nil, typeErr(kindName(n))
		}
		m, _ := cur.(*omap)
		if m == nil {
			m = newOmap(u)
		}
		for k := range n.keys {
			var key value
			if isStringType(u.Key()) {
				key = n.keys[k]
			} else if kk, ok := intInfo(u.Key()); ok {
				var iv int64
				if _, err := fmt.Sscan(n.keys[k], &iv); err != nil {
					return nil, typeErr("object key " + n.keys[k])
				}
				key = kk.norm(iv)
			} else {
				return nil, typeErr("object")
			}
			v, err := d.build(n.vals[k], u.Elem(), zero(u.Elem()))
			if err != nil {
				return nil, err
			}
			i.mapInsert(d.fr, m, key, v)
		}
		return m, nil
	case *types.Pointer:
		if n.kind == 'n' {
			return (*value)(nil), nil
		}
		p, _ := cur.(*value)
		if p == nil {
			c := zero(u.Elem())
			p = &c
		}
		v, err := d.build(n, u.Elem(), *p)
		if err != nil {
			return nil, err
		}
		i.store(u.Elem(), p, v)
		return p, nil
	case *types.Struct:
		if n.kind == 'n' {
			return cur, nil
		}
		if n.kind != 'o' {
			return nil, typeErr(kindName(n))
		}
		sv, _ := cur.(structure)
		if sv == nil {
			sv = zero(t).(structure)
		} else {
			sv = copyVal(sv).(structure)
		}
		for k := range n.keys {
			idx := -1
			for f := 0; f < u.NumFields(); f++ {
				name, _, skip, _ := jsonFieldName(u.Field(f), u.Tag(f))
				if skip {
					continue
				}
				if name == n.keys[k] {
					idx = f
					break
				}
				if idx < 0 && strings.EqualFold(name, n.keys[k]) {
					idx = f
				}
			}
			if idx < 0 {
				continue
			}
			v, err := d.build(n.vals[k], u.Field(idx).Type(), sv[idx])
			if err != nil {
				return nil, err
			}
			sv[idx] = v
		}
		return sv, nil
	}
	return nil, typeErr(kindName(n))
}

func kindName(n *jnode) string {
	switch n.kind {
	case 'n':
		return "null"
	case 'b':
		return "bool"
	case 'N':
		return "number"
	case 's':
		return "string"
	case 'a':
		return "array"
	case 'o':
		return "object"
	}
	return "value"
}

func init() {
	marshal := func(i *Interp, fr *frame, v value) ([]byte, string) {
		e := &jsonEnc{i: i, fr: fr}
		e.encode(v, nil, 0)
		if e.err != "" {
			return nil, e.err
		}
		// normalise through the native encoder's HTML escaping rules etc. (already applied per scalar)
		return e.buf.Bytes(), ""
	}
	intrinsics["encoding/json.Marshal"] = func(i *Interp, fr *frame, a []value) value {
		b, err := marshal(i, fr, a[0])
		if err != "" {
			return tuple{[]value(nil), i.mkError(err)}
		}
		return tuple{bytesValue(b), iface{}}
	}
	intrinsics["encoding/json.MarshalIndent"] = func(i *Interp, fr *frame, a []value) value {
		b, err := marshal(i, fr, a[0])
		if err != "" {
			return tuple{[]value(nil), i.mkError(err)}
		}
		var out bytes.Buffer
		if e := json.Indent(&out, b, concreteString(i, a[1], "json prefix"), concreteString(i, a[2], "json indent")); e != nil {
			return tuple{[]value(nil), i.mkError(e.Error())}
		}
		return tuple{bytesValue(out.Bytes()), iface{}}
	}
	intrinsics["encoding/json.Valid"] = func(i *Interp, fr *frame, a []value) value {
		return json.Valid(concreteBytes(i, a[0], "json.Valid"))
	}
	intrinsics["encoding/json.Unmarshal"] = func(i *Interp, fr *frame, a []value) value {
		data := concreteBytes(i, a[0], "json.Unmarshal")
		dst := a[1].(iface)
		if dst.t == nil {
			return i.mkError("json: Unmarshal(nil)")
		}
		pt, ok := dst.t.Underlying().(*types.Pointer)
		p, _ := dst.v.(*value)
		if !ok || p == nil {
			return i.mkError("json: Unmarshal(non-pointer " + dst.t.String() + ")")
		}
		if !json.Valid(data) {
			var tmp interface{}
			err := json.Unmarshal(data, &tmp)
			if err == nil {
				err = fmt.Errorf("invalid JSON")
			}
			return i.mkError(err.Error())
		}
		d := &jsonDec{i: i, fr: fr, dec: json.NewDecoder(bytes.NewReader(data))}
		d.dec.UseNumber()
		n, err := d.read()
		if err != nil {
			return i.mkError(err.Error())
		}
		v, err := d.build(n, pt.Elem(), *p)
		if err != nil {
			return i.mkError(err.Error())
		}
		i.store(pt.Elem(), p, v)
		return iface{}
	}
}
