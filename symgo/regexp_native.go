package main

// regexp: patterns are compiled natively; methods with concrete arguments are executed by
// the native regexp package; a method with a symbolic subject falls back to interpreting
// the stdlib regexp package from source on the same pattern (exact, forks per NFA step).

import (
	"fmt"
	"reflect"
	"regexp"
	"strings"

	"golang.org/x/tools/go/ssa"
)

type reObj struct {
	pattern string
	posix   bool
	native  *regexp.Regexp
	interp  value // *value produced by interpreting regexp.Compile, lazily
}

func (i *Interp) reOf(v value) *reObj {
	p, ok := v.(*value)
	if !ok || p == nil {
		return nil
	}
	if n, ok := (*p).(nativeObj); ok {
		if r, ok := n.o.(*reObj); ok {
			return r
		}
	}
	return nil
}

func (i *Interp) reInterp(fr *frame, r *reObj) value {
	if r.interp != nil {
		return r.interp
	}
	pkg := i.ld.byPath["regexp"]
	name := "Compile"
	if r.posix {
		name = "CompilePOSIX"
	}
	fn := pkg.Func(name)
	// compiled with the undo log off: the object is cached across paths (initial state)
	saved, savedLog := i.bypass, i.logging
	i.bypass = fn
	i.logging = false
	i.initDepth++
	res := i.callSSA(fr, 0, fn, []value{r.pattern}, nil).(tuple)
	i.initDepth--
	i.bypass, i.logging = saved, savedLog
	r.interp = res[0]
	return r.interp
}

func goToValue(rv reflect.Value) value {
	switch rv.Kind() {
	case reflect.Bool:
		return rv.Bool()
	case reflect.Int, reflect.Int8, reflect.Int16, reflect.Int32, reflect.Int64:
		return rv.Int()
	case reflect.Uint8:
		return int64(rv.Uint())
	case reflect.Uint, reflect.Uint16, reflect.Uint32, reflect.Uint64:
		return int64(rv.Uint())
	case reflect.String:
		return rv.String()
	case reflect.Slice:
		if rv.IsNil() {
			return []value(nil)
		}
		s := make([]value, rv.Len())
		for k := range s {
			s[k] = goToValue(rv.Index(k))
		}
		return s
	}
	panic(fmt.Sprintf("goToValue: unsupported kind %v", rv.Kind()))
}

// valueToGo converts a concrete engine value to a Go value of the given reflect type.
func valueToGo(v value, t reflect.Type) (reflect.Value, bool) {
	switch t.Kind() {
	case reflect.String:
		if s, ok := v.(string); ok {
			return reflect.ValueOf(s), true
		}
	case reflect.Int:
		if n, ok := v.(int64); ok {
			return reflect.ValueOf(int(n)), true
		}
	case reflect.Bool:
		if b, ok := v.(bool); ok {
			return reflect.ValueOf(b), true
		}
	case reflect.Slice:
		if t.Elem().Kind() == reflect.Uint8 {
			xs, ok := v.([]value)
			if !ok {
				return reflect.Value{}, false
			}
			s, ok := mkStr(xs).(string)
			if !ok {
				return reflect.Value{}, false
			}
			if xs == nil {
				return reflect.ValueOf([]byte(nil)), true
			}
			return reflect.ValueOf([]byte(s)), true
		}
	}
	return reflect.Value{}, false
}

func regexpMethodIntrinsic(fn *ssa.Function, name string) intrinsicFn {
	meth := name[strings.LastIndex(name, ".")+1:]
	return func(i *Interp, fr *frame, a []value) value {
		r := i.reOf(a[0])
		if r == nil {
			// receiver was produced by interpreting regexp itself
			saved := i.bypass
			i.bypass = fn
			defer func() { i.bypass = saved }()
			return i.callSSA(fr, 0, fn, a, nil)
		}
		m := reflect.ValueOf(r.native).MethodByName(meth)
		if m.IsValid() {
			mt := m.Type()
			if mt.NumIn() == len(a)-1 && !mt.IsVariadic() {
				args := make([]reflect.Value, 0, len(a)-1)
				ok := true
				for k := 1; k < len(a); k++ {
					gv, good := valueToGo(a[k], mt.In(k-1))
					if !good {
						ok = false
						break
					}
					args = append(args, gv)
				}
				if ok {
					outs := m.Call(args)
					switch len(outs) {
					case 0:
						return nil
					case 1:
						return goToValue(outs[0])
					default:
						t := make(tuple, len(outs))
						for k := range outs {
							t[k] = goToValue(outs[k])
						}
						return t
					}
				}
			}
		}
		// symbolic subject or callback argument: interpret the real regexp code
		args := append([]value{i.reInterp(fr, r)}, a[1:]...)
		saved := i.bypass
		i.bypass = fn
		defer func() { i.bypass = saved }()
		return i.callSSA(fr, 0, fn, args, nil)
	}
}

func init() {
	compile := func(posix, must bool) intrinsicFn {
		return func(i *Interp, fr *frame, a []value) value {
			pat := concreteString(i, a[0], "regexp.Compile pattern")
			var re *regexp.Regexp
			var err error
			if posix {
				re, err = regexp.CompilePOSIX(pat)
			} else {
				re, err = regexp.Compile(pat)
			}
			if err != nil {
				if must {
					panic(targetPanic{v: iface{tString, "regexp: Compile(" + pat + "): " + err.Error()}, where: "regexp.MustCompile"})
				}
				return tuple{(*value)(nil), i.mkError(err.Error())}
			}
			cell := value(nativeObj{&reObj{pattern: pat, posix: posix, native: re}})
			if must {
				return &cell
			}
			return tuple{&cell, iface{}}
		}
	}
	intrinsics["regexp.Compile"] = compile(false, false)
	intrinsics["regexp.MustCompile"] = compile(false, true)
	intrinsics["regexp.CompilePOSIX"] = compile(true, false)
	intrinsics["regexp.MustCompilePOSIX"] = compile(true, true)
	intrinsics["regexp.QuoteMeta"] = func(i *Interp, fr *frame, a []value) value {
		if s, ok := a[0].(string); ok {
			return regexp.QuoteMeta(s)
		}
		i.unsupported("regexp.QuoteMeta of a symbolic string")
		return nil
	}
}
