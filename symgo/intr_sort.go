package main

// sort.Slice family and errors.As (they use reflectlite in the stdlib).

import (
	"go/types"
)

func init() {
	sortSlice := func(i *Interp, fr *frame, a []value) value {
		it, ok := a[0].(iface)
		if !ok || it.t == nil {
			i.runtimePanic(fr, "sort.Slice of a nil interface")
		}
		xs, ok := it.v.([]value)
		if !ok {
			i.runtimePanic(fr, "sort.Slice called with a non-slice")
		}
		less := a[1]
		// binary insertion sort (stable); comparisons may be symbolic (forks)
		for k := 1; k < len(xs); k++ {
			for j := k; j > 0; j-- {
				if !i.truth(fr, i.call(fr, 0, less, []value{int64(j), int64(j - 1)})) {
					break
				}
				tmp := copyVal(xs[j])
				i.setCell(&xs[j], copyVal(xs[j-1]))
				i.setCell(&xs[j-1], tmp)
			}
		}
		return nil
	}
	intrinsics["sort.Slice"] = sortSlice
	intrinsics["sort.SliceStable"] = sortSlice
	intrinsics["sort.SliceIsSorted"] = func(i *Interp, fr *frame, a []value) value {
		xs := a[0].(iface).v.([]value)
		for k := len(xs) - 1; k > 0; k-- {
			if i.truth(fr, i.call(fr, 0, a[1], []value{int64(k), int64(k - 1)})) {
				return false
			}
		}
		return true
	}
	intrinsics["errors.As"] = func(i *Interp, fr *frame, a []value) value {
		err := a[0].(iface)
		target := a[1].(iface)
		if target.t == nil {
			i.runtimePanic(fr, "errors: target cannot be nil")
		}
		pt, ok := target.t.Underlying().(*types.Pointer)
		p, _ := target.v.(*value)
		if !ok || p == nil {
			i.runtimePanic(fr, "errors: target must be a non-nil pointer")
		}
		T := pt.Elem()
		for depth := 0; depth < 20 && err.t != nil; depth++ {
			if _, isExt := err.t.(*extType); !isExt {
				if it, isIface := T.Underlying().(*types.Interface); isIface {
					if types.Implements(err.t, it) {
						i.setCell(p, err)
						return true
					}
				} else if types.Identical(err.t, T) {
					i.setCell(p, err.v)
					return true
				}
				if m := i.findMethod(err.t, "As"); m != nil {
					if r, ok := i.call(fr, 0, m, []value{err.v, target}).(bool); ok && r {
						return true
					}
				}
			}
			uw := i.findMethod(err.t, "Unwrap")
			if uw == nil {
				return false
			}
			next, ok := i.call(fr, 0, uw, []value{err.v}).(iface)
			if !ok {
				return false
			}
			err = next
		}
		return false
	}
}
