package main

// Environment leaves of murex itself (terminal, deprecation notices): fixed values.

import "go/types"

func init() {
	intrinsics["github.com/lmorg/readline/v4.GetTermWidth"] = func(i *Interp, fr *frame, a []value) value { return int64(80) }
	intrinsics["github.com/lmorg/readline/v4.GetSize"] = func(i *Interp, fr *frame, a []value) value {
		return tuple{int64(80), int64(25), iface{}}
	}
}

// Timers: within a bounded run no timeout expires (stated assumption). AfterFunc never
// calls its function, After/NewTimer/Tick channels never deliver.
func init() {
	newTimerVal := func(i *Interp, withChan bool) value {
		// time.Timer{C <-chan Time, r runtimeTimer...}: build a zero Timer and set C
		p := i.ld.byPath["time"]
		if p == nil {
			return (*value)(nil)
		}
		tt := p.Type("Timer")
		if tt == nil {
			return (*value)(nil)
		}
		z := zero(tt.Object().Type())
		if withChan {
			if st, ok := z.(structure); ok && len(st) > 0 {
				st[0] = &channel{cap: 1, elem: p.Type("Time").Object().Type()}
			}
		}
		return &z
	}
	intrinsics["time.AfterFunc"] = func(i *Interp, fr *frame, a []value) value { return newTimerVal(i, false) }
	intrinsics["time.NewTimer"] = func(i *Interp, fr *frame, a []value) value { return newTimerVal(i, true) }
	intrinsics["time.After"] = func(i *Interp, fr *frame, a []value) value {
		return &channel{cap: 1, elem: i.ld.byPath["time"].Type("Time").Object().Type()}
	}
	intrinsics["time.Tick"] = intrinsics["time.After"]
	intrinsics["(*time.Timer).Stop"] = func(i *Interp, fr *frame, a []value) value { return true }
	intrinsics["(*time.Timer).Reset"] = func(i *Interp, fr *frame, a []value) value { return true }
	intrinsics["(*time.Ticker).Stop"] = func(i *Interp, fr *frame, a []value) value { return nil }
}

// OS identity: fixed values.
func init() {
	intrinsics["os/user.Current"] = func(i *Interp, fr *frame, a []value) value {
		p := i.ld.byPath["os/user"]
		ut := p.Type("User").Object().Type()
		u := zero(ut).(structure)
		// Uid, Gid, Username, Name, HomeDir
		vals := []string{"1000", "1000", "verif", "verif", "/home/verif"}
		for k := range vals {
			if k < len(u) {
				u[k] = vals[k]
			}
		}
		v := value(u)
		return tuple{&v, iface{}}
	}
	intrinsics["os.Getuid"] = func(i *Interp, fr *frame, a []value) value { return int64(1000) }
	intrinsics["os.Geteuid"] = func(i *Interp, fr *frame, a []value) value { return int64(1000) }
	intrinsics["os.Getgid"] = func(i *Interp, fr *frame, a []value) value { return int64(1000) }
	intrinsics["os.TempDir"] = func(i *Interp, fr *frame, a []value) value { return "/tmp" }
}

func init() {
	intrinsics["github.com/lmorg/murex/utils/crash._crashStack"] = func(i *Interp, fr *frame, a []value) value { return "Stack: (not modelled)\n" }
	intrinsics["github.com/lmorg/murex/utils/crash._crashHostReport"] = func(i *Interp, fr *frame, a []value) value { return "" }
	intrinsics["runtime.Callers"] = func(i *Interp, fr *frame, a []value) value { return int64(0) }
}

// File system: an empty, write-discarding file system (stated assumption in every run that touches it).
func init() {
	ok := func(i *Interp, fr *frame, a []value) value { return iface{} }
	noent := func(what string, results int) intrinsicFn {
		return func(i *Interp, fr *frame, a []value) value {
			name := ""
			if len(a) > 0 {
				name = toPlain(a[0])
			}
			err := i.mkError(what + " " + name + ": no such file or directory")
			switch results {
			case 1:
				return err
			}
			return tuple{zeroPtrOrSlice(results), err}
		}
	}
	intrinsics["os.MkdirTemp"] = func(i *Interp, fr *frame, a []value) value { return tuple{"/tmp/murex-verif", iface{}} }
	intrinsics["os.MkdirAll"] = ok
	intrinsics["os.Mkdir"] = ok
	intrinsics["os.Chmod"] = ok
	intrinsics["os.Remove"] = ok
	intrinsics["os.RemoveAll"] = ok
	intrinsics["os.Chdir"] = ok
	intrinsics["os.Stat"] = noent("stat", 2)
	intrinsics["os.Lstat"] = noent("lstat", 2)
	intrinsics["os.Open"] = noent("open", 2)
	intrinsics["os.OpenFile"] = noent("open", 2)
	intrinsics["os.Create"] = noent("open", 2)
	intrinsics["os.ReadFile"] = noent("open", 3)
	intrinsics["os.ReadDir"] = noent("open", 3)
	intrinsics["os.WriteFile"] = ok
	intrinsics["os.Readlink"] = func(i *Interp, fr *frame, a []value) value {
		return tuple{"", i.mkError("readlink: invalid argument")}
	}
}

func zeroPtrOrSlice(kind int) value {
	if kind == 3 {
		return []value(nil)
	}
	return (*value)(nil)
}

// GODEBUG: no setting is set (internal/godebug is not initialised; its Setting values are nil in
// packages whose initialisers the engine does not run).
func init() {
	intrinsics["(*internal/godebug.Setting).Value"] = func(i *Interp, fr *frame, a []value) value { return "" }
	intrinsics["(*internal/godebug.Setting).IncNonDefault"] = func(i *Interp, fr *frame, a []value) value { return nil }
	intrinsics["(*internal/godebug.Setting).Undocumented"] = func(i *Interp, fr *frame, a []value) value { return false }
}

// External programs: none is installed. os/exec.LookPath fails the way the real one does for a
// missing program (*exec.Error wrapping "executable file not found in $PATH").
func init() {
	intrinsics["os/exec.LookPath"] = func(i *Interp, fr *frame, a []value) value {
		p := i.ld.byPath["os/exec"]
		if p == nil {
			return tuple{"", i.mkError("executable file not found in $PATH")}
		}
		t := p.Type("Error").Object().Type()
		e := zero(t).(structure)
		e[0] = a[0]
		e[1] = i.mkError("executable file not found in $PATH")
		v := value(e)
		return tuple{"", iface{t: types.NewPointer(t), v: &v}}
	}
}

// math/rand (top-level functions; the package's global source is not initialised): a fixed
// stream - every integer draw is 0 (the smallest legal value), Float64 is 0.5. Stated as an
// assumption wherever a harness reaches it; nothing a property asserts may depend on it.
func init() {
	zeroInt := func(i *Interp, fr *frame, a []value) value { return int64(0) }
	for _, n := range []string{"Int", "Int31", "Int63", "Uint32", "Uint64"} {
		intrinsics["math/rand."+n] = zeroInt
	}
	for _, n := range []string{"Intn", "Int31n", "Int63n"} {
		n := n
		intrinsics["math/rand."+n] = func(i *Interp, fr *frame, a []value) value {
			if v, ok := a[0].(int64); ok && v <= 0 {
				i.runtimePanic(fr, "invalid argument to "+n) // as the real functions do
			}
			return int64(0)
		}
	}
	intrinsics["math/rand.Float64"] = func(i *Interp, fr *frame, a []value) value { return float64(0.5) }
	intrinsics["math/rand.Float32"] = func(i *Interp, fr *frame, a []value) value { return float32(0.5) }
	intrinsics["math/rand.Seed"] = func(i *Interp, fr *frame, a []value) value { return nil }
}
