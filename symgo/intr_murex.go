package main

// Environment leaves of murex itself (terminal, deprecation notices): fixed values.

func init() {
	intrinsics["github.com/lmorg/readline/v4.GetTermWidth"] = func(i *Interp, fr *frame, a []value) value { return int64(80) }
	intrinsics["github.com/lmorg/readline/v4.GetSize"] = func(i *Interp, fr *frame, a []value) value {
		return tuple{int64(80), int64(25), iface{}}
	}
}
