package main

// Insertion-ordered maps with deterministic iteration (re-execution of a decision
// prefix must be deterministic) and support for keys that contain symbolic parts.

import (
	"fmt"
	"go/types"
	"strconv"
	"strings"

	"golang.org/x/tools/go/ssa"
)

type mapEntry struct {
	key, val value
	deleted  bool
	hk       interface{} // hash key when the key is fully concrete, else nil
}

type omap struct {
	t       *types.Map
	entries []*mapEntry
	index   map[interface{}]*mapEntry
	nsym    int
	n       int
}

func newOmap(t *types.Map) *omap {
	return &omap{t: t, index: map[interface{}]*mapEntry{}}
}

// hashKey returns a comparable Go value identifying a fully concrete key, or ok=false.
func hashKey(v value) (interface{}, bool) {
	switch v := v.(type) {
	case bool, int64, float64, float32, string, complex128:
		return v, true
	case *value:
		return v, true
	case *channel:
		return v, true
	case *Term, *symstr:
		return nil, false
	case upointer:
		if v.p == nil {
			return "U:nil", true
		}
		return hashKey(v.p)
	case *ssa.Function, *closure:
		return v, true
	}
	var sb strings.Builder
	if !encodeKey(&sb, v) {
		return nil, false
	}
	return sb.String(), true
}

func encodeKey(sb *strings.Builder, v value) bool {
	switch v := v.(type) {
	case bool:
		if v {
			sb.WriteString("T")
		} else {
			sb.WriteString("F")
		}
	case int64:
		sb.WriteString("i" + strconv.FormatInt(v, 10))
	case float64:
		sb.WriteString("f" + strconv.FormatFloat(v, 'g', -1, 64))
	case float32:
		sb.WriteString("g" + strconv.FormatFloat(float64(v), 'g', -1, 32))
	case complex128:
		sb.WriteString(fmt.Sprint("c", v))
	case string:
		sb.WriteString("s" + strconv.Itoa(len(v)) + ":" + v)
	case *value:
		sb.WriteString(fmt.Sprintf("p%p", v))
	case *channel:
		sb.WriteString(fmt.Sprintf("h%p", v))
	case upointer:
		sb.WriteString("U")
		if v.p != nil {
			return encodeKey(sb, v.p)
		}
	case iface:
		if v.t == nil {
			sb.WriteString("N")
			return true
		}
		sb.WriteString("I<" + v.t.String() + ">")
		return encodeKey(sb, v.v)
	case structure:
		sb.WriteString("{")
		for _, f := range v {
			if !encodeKey(sb, f) {
				return false
			}
			sb.WriteString(",")
		}
		sb.WriteString("}")
	case array:
		sb.WriteString("[")
		for _, f := range v {
			if !encodeKey(sb, f) {
				return false
			}
			sb.WriteString(",")
		}
		sb.WriteString("]")
	case rtype:
		sb.WriteString("R<" + v.t.String() + ">")
	case *ssa.Function:
		sb.WriteString(fmt.Sprintf("F%p", v))
	case *closure:
		sb.WriteString(fmt.Sprintf("C%p", v))
	default:
		return false
	}
	return true
}

func (i *Interp) mapFind(fr *frame, m *omap, key value) *mapEntry {
	var kt types.Type
	if m.t != nil {
		kt = m.t.Key()
	}
	if it, ok := key.(iface); ok && it.t != nil {
		if _, isExt := it.t.(*extType); !isExt && !types.Comparable(it.t) {
			i.runtimePanic(fr, "hash of unhashable type %s", it.t)
		}
	}
	hk, conc := hashKey(key)
	if conc {
		if e, ok := m.index[hk]; ok {
			return e
		}
		if m.nsym == 0 {
			return nil
		}
		for _, e := range m.entries {
			if e.deleted || e.hk != nil {
				continue
			}
			if i.truth(fr, i.equals(kt, key, e.key)) {
				return e
			}
		}
		return nil
	}
	for _, e := range m.entries {
		if e.deleted {
			continue
		}
		c := i.equals(kt, key, e.key)
		if b, ok := c.(bool); ok && !b {
			continue
		}
		if i.truth(fr, c) {
			return e
		}
	}
	return nil
}

func (i *Interp) mapLookup(fr *frame, m *omap, key value) (value, bool) {
	e := i.mapFind(fr, m, key)
	if e == nil {
		return nil, false
	}
	return e.val, true
}

func (i *Interp) mapInsert(fr *frame, m *omap, key, val value) {
	if e := i.mapFind(fr, m, key); e != nil {
		i.setCell(&e.val, val)
		return
	}
	hk, conc := hashKey(key)
	e := &mapEntry{key: key, val: val}
	if conc {
		e.hk = hk
		m.index[hk] = e
	} else {
		m.nsym++
	}
	m.entries = append(m.entries, e)
	m.n++
	i.logUndo(func() {
		m.entries = m.entries[:len(m.entries)-1]
		m.n--
		if conc {
			delete(m.index, hk)
		} else {
			m.nsym--
		}
	})
}

func (i *Interp) mapDeleteEntry(m *omap, e *mapEntry) {
	e.deleted = true
	m.n--
	if e.hk != nil {
		delete(m.index, e.hk)
	} else {
		m.nsym--
	}
	i.logUndo(func() {
		e.deleted = false
		m.n++
		if e.hk != nil {
			m.index[e.hk] = e
		} else {
			m.nsym++
		}
	})
}

func (i *Interp) mapDelete(fr *frame, m *omap, key value) {
	if e := i.mapFind(fr, m, key); e != nil {
		i.mapDeleteEntry(m, e)
	}
}

// liveEntries returns the live entries in insertion order.
func (m *omap) liveEntries() []*mapEntry {
	if m == nil {
		return nil
	}
	res := make([]*mapEntry, 0, m.n)
	for _, e := range m.entries {
		if !e.deleted {
			res = append(res, e)
		}
	}
	return res
}
