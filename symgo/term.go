package main

// SMT terms: hash-consed DAG nodes over Bool, bit-vectors and IEEE-754 doubles.
// Invariant kept by the interpreter: an operation whose operands are all concrete
// is computed natively and never becomes a Term; Terms therefore always depend on
// at least one declared input variable (except constant leaves used as operands).

import (
	"fmt"
	"math"
	"strconv"
	"strings"
)

type Sort uint8

const (
	SBool Sort = iota
	SBV8
	SBV16
	SBV32
	SBV64
	SFP64
	SFP32
)

func (s Sort) String() string {
	switch s {
	case SBool:
		return "Bool"
	case SBV8:
		return "(_ BitVec 8)"
	case SBV16:
		return "(_ BitVec 16)"
	case SBV32:
		return "(_ BitVec 32)"
	case SBV64:
		return "(_ BitVec 64)"
	case SFP64:
		return "(_ FloatingPoint 11 53)"
	case SFP32:
		return "(_ FloatingPoint 8 24)"
	}
	return "?"
}

func (s Sort) Width() int {
	switch s {
	case SBV8:
		return 8
	case SBV16:
		return 16
	case SBV32:
		return 32
	case SBV64:
		return 64
	}
	panic("Width of non-BV sort " + s.String())
}

func (s Sort) IsBV() bool { return s >= SBV8 && s <= SBV64 }

func bvSort(w int) Sort {
	switch w {
	case 8:
		return SBV8
	case 16:
		return SBV16
	case 32:
		return SBV32
	case 64:
		return SBV64
	}
	panic(fmt.Sprintf("unsupported bit-vector width %d", w))
}

type Term struct {
	op   string // SMT operator, or "var", "const"
	sort Sort
	args []*Term
	p1   int    // parameters (extract hi / extension amount)
	p2   int    // extract lo
	cval uint64 // constant payload (BV value, bool 0/1, FP bits)
	name string // variable name
	id   int
	neg  *Term // cached negation (Bool only)
}

// TermTable hash-conses the terms of one worker.
type TermTable struct {
	tab   map[string]*Term
	terms []*Term
	vars  []*Term // declared input variables in creation order
	varBy map[string]*Term
}

func newTermTable() *TermTable {
	return &TermTable{tab: map[string]*Term{}, varBy: map[string]*Term{}}
}

func (tt *TermTable) mk(op string, sort Sort, p1, p2 int, cval uint64, name string, args ...*Term) *Term {
	var sb strings.Builder
	sb.WriteString(op)
	sb.WriteByte('|')
	sb.WriteByte(byte('0' + sort))
	if p1 != 0 || p2 != 0 {
		sb.WriteString(strconv.Itoa(p1))
		sb.WriteByte(',')
		sb.WriteString(strconv.Itoa(p2))
	}
	if op == "const" {
		sb.WriteString(strconv.FormatUint(cval, 16))
	}
	if name != "" {
		sb.WriteString(name)
	}
	for _, a := range args {
		sb.WriteByte('|')
		sb.WriteString(strconv.Itoa(a.id))
	}
	k := sb.String()
	if t, ok := tt.tab[k]; ok {
		return t
	}
	t := &Term{op: op, sort: sort, args: args, p1: p1, p2: p2, cval: cval, name: name, id: len(tt.terms)}
	tt.terms = append(tt.terms, t)
	tt.tab[k] = t
	return t
}

func (tt *TermTable) Var(name string, sort Sort) *Term {
	if t, ok := tt.varBy[name]; ok {
		if t.sort != sort {
			panic(fmt.Sprintf("input %q re-declared with another sort", name))
		}
		return t
	}
	t := tt.mk("var", sort, 0, 0, 0, name)
	tt.varBy[name] = t
	tt.vars = append(tt.vars, t)
	return t
}

func maskW(v uint64, w int) uint64 {
	if w >= 64 {
		return v
	}
	return v & (uint64(1)<<uint(w) - 1)
}

func (tt *TermTable) BV(w int, v uint64) *Term {
	return tt.mk("const", bvSort(w), 0, 0, maskW(v, w), "")
}
func (tt *TermTable) Bool(b bool) *Term {
	if b {
		return tt.mk("const", SBool, 0, 0, 1, "")
	}
	return tt.mk("const", SBool, 0, 0, 0, "")
}
func (tt *TermTable) FP(f float64) *Term {
	return tt.mk("const", SFP64, 0, 0, math.Float64bits(f), "")
}
func (tt *TermTable) FP32(f float32) *Term {
	return tt.mk("const", SFP32, 0, 0, uint64(math.Float32bits(f)), "")
}

func (t *Term) isConst() bool { return t.op == "const" }
func (t *Term) isTrue() bool  { return t.op == "const" && t.sort == SBool && t.cval == 1 }
func (t *Term) isFalse() bool { return t.op == "const" && t.sort == SBool && t.cval == 0 }

// ---- Boolean constructors with light simplification

func (tt *TermTable) Not(a *Term) *Term {
	if a.isConst() {
		return tt.Bool(a.cval == 0)
	}
	if a.op == "not" {
		return a.args[0]
	}
	if a.neg != nil {
		return a.neg
	}
	n := tt.mk("not", SBool, 0, 0, 0, "", a)
	a.neg = n
	n.neg = a
	return n
}

func (tt *TermTable) And(a, b *Term) *Term {
	if a.isConst() {
		if a.cval == 0 {
			return a
		}
		return b
	}
	if b.isConst() {
		if b.cval == 0 {
			return b
		}
		return a
	}
	if a == b {
		return a
	}
	return tt.mk("and", SBool, 0, 0, 0, "", a, b)
}

func (tt *TermTable) Or(a, b *Term) *Term {
	if a.isConst() {
		if a.cval == 1 {
			return a
		}
		return b
	}
	if b.isConst() {
		if b.cval == 1 {
			return b
		}
		return a
	}
	if a == b {
		return a
	}
	return tt.mk("or", SBool, 0, 0, 0, "", a, b)
}

func (tt *TermTable) Ite(c, a, b *Term) *Term {
	if c.isConst() {
		if c.cval == 1 {
			return a
		}
		return b
	}
	if a == b {
		return a
	}
	if a.sort == SBool {
		if a.isTrue() && b.isFalse() {
			return c
		}
		if a.isFalse() && b.isTrue() {
			return tt.Not(c)
		}
	}
	return tt.mk("ite", a.sort, 0, 0, 0, "", c, a, b)
}

func (tt *TermTable) Eq(a, b *Term) *Term {
	if a == b {
		if a.sort == SFP64 || a.sort == SFP32 {
			// structural equality of FP terms (used only by the engine, = is bitwise-ish in SMT)
			return tt.mk("=", SBool, 0, 0, 0, "", a, b)
		}
		return tt.Bool(true)
	}
	if a.isConst() && b.isConst() {
		return tt.Bool(a.cval == b.cval)
	}
	if a.id > b.id {
		a, b = b, a
	}
	return tt.mk("=", SBool, 0, 0, 0, "", a, b)
}

// ---- bit-vector constructors

func (tt *TermTable) foldBV(op string, w int, x, y uint64) (uint64, bool) {
	sx := func(v uint64) int64 {
		if w == 64 {
			return int64(v)
		}
		sh := uint(64 - w)
		return int64(v<<sh) >> sh
	}
	switch op {
	case "bvadd":
		return maskW(x+y, w), true
	case "bvsub":
		return maskW(x-y, w), true
	case "bvmul":
		return maskW(x*y, w), true
	case "bvand":
		return x & y, true
	case "bvor":
		return x | y, true
	case "bvxor":
		return x ^ y, true
	case "bvudiv":
		if y == 0 {
			return maskW(^uint64(0), w), true
		}
		return x / y, true
	case "bvurem":
		if y == 0 {
			return x, true
		}
		return x % y, true
	case "bvsdiv":
		if y == 0 {
			return 0, false
		}
		if sx(y) == -1 {
			return maskW(uint64(-sx(x)), w), true
		}
		return maskW(uint64(sx(x)/sx(y)), w), true
	case "bvsrem":
		if y == 0 {
			return 0, false
		}
		if sx(y) == -1 {
			return 0, true
		}
		return maskW(uint64(sx(x)%sx(y)), w), true
	case "bvshl":
		if y >= uint64(w) {
			return 0, true
		}
		return maskW(x<<y, w), true
	case "bvlshr":
		if y >= uint64(w) {
			return 0, true
		}
		return x >> y, true
	case "bvashr":
		if y >= uint64(w) {
			y = uint64(w - 1)
		}
		return maskW(uint64(sx(x)>>y), w), true
	}
	return 0, false
}

func (tt *TermTable) BVBin(op string, a, b *Term) *Term {
	if a.sort != b.sort {
		panic(fmt.Sprintf("BVBin %s: sort mismatch %v %v", op, a.sort, b.sort))
	}
	w := a.sort.Width()
	if a.isConst() && b.isConst() {
		if v, ok := tt.foldBV(op, w, a.cval, b.cval); ok {
			return tt.BV(w, v)
		}
	}
	// identities
	switch op {
	case "bvadd", "bvor", "bvxor":
		if a.isConst() && a.cval == 0 {
			return b
		}
		if b.isConst() && b.cval == 0 {
			return a
		}
	case "bvsub", "bvshl", "bvlshr", "bvashr":
		if b.isConst() && b.cval == 0 {
			return a
		}
	case "bvmul":
		if a.isConst() && a.cval == 1 {
			return b
		}
		if b.isConst() && b.cval == 1 {
			return a
		}
	case "bvand":
		if a.isConst() && a.cval == maskW(^uint64(0), w) {
			return b
		}
		if b.isConst() && b.cval == maskW(^uint64(0), w) {
			return a
		}
	}
	switch op {
	case "bvadd", "bvmul", "bvand", "bvor", "bvxor":
		if a.id > b.id {
			a, b = b, a
		}
	}
	return tt.mk(op, a.sort, 0, 0, 0, "", a, b)
}

func (tt *TermTable) BVUn(op string, a *Term) *Term {
	w := a.sort.Width()
	if a.isConst() {
		switch op {
		case "bvnot":
			return tt.BV(w, ^a.cval)
		case "bvneg":
			return tt.BV(w, -a.cval)
		}
	}
	return tt.mk(op, a.sort, 0, 0, 0, "", a)
}

func (tt *TermTable) BVCmp(op string, a, b *Term) *Term {
	if a.sort != b.sort {
		panic(fmt.Sprintf("BVCmp %s: sort mismatch %v %v", op, a.sort, b.sort))
	}
	if a.isConst() && b.isConst() {
		w := a.sort.Width()
		sx := func(v uint64) int64 {
			if w == 64 {
				return int64(v)
			}
			sh := uint(64 - w)
			return int64(v<<sh) >> sh
		}
		switch op {
		case "bvult":
			return tt.Bool(a.cval < b.cval)
		case "bvule":
			return tt.Bool(a.cval <= b.cval)
		case "bvslt":
			return tt.Bool(sx(a.cval) < sx(b.cval))
		case "bvsle":
			return tt.Bool(sx(a.cval) <= sx(b.cval))
		}
	}
	if a == b {
		switch op {
		case "bvult", "bvslt":
			return tt.Bool(false)
		case "bvule", "bvsle":
			return tt.Bool(true)
		}
	}
	return tt.mk(op, SBool, 0, 0, 0, "", a, b)
}

func (tt *TermTable) Extract(hi, lo int, a *Term) *Term {
	w := hi - lo + 1
	if a.isConst() {
		return tt.BV(w, a.cval>>uint(lo))
	}
	if lo == 0 && w == a.sort.Width() {
		return a
	}
	// extract of an extension of something narrow enough
	if (a.op == "zext" || a.op == "sext") && lo == 0 {
		inner := a.args[0]
		iw := inner.sort.Width()
		if w == iw {
			return inner
		}
		if w < iw {
			return tt.Extract(hi, lo, inner)
		}
	}
	return tt.mk("extract", bvSort(w), hi, lo, 0, "", a)
}

func (tt *TermTable) ZExt(to int, a *Term) *Term {
	w := a.sort.Width()
	if to == w {
		return a
	}
	if to < w {
		return tt.Extract(to-1, 0, a)
	}
	if a.isConst() {
		return tt.BV(to, a.cval)
	}
	if a.op == "zext" {
		return tt.ZExt(to, a.args[0])
	}
	return tt.mk("zext", bvSort(to), to-w, 0, 0, "", a)
}

func (tt *TermTable) SExt(to int, a *Term) *Term {
	w := a.sort.Width()
	if to == w {
		return a
	}
	if to < w {
		return tt.Extract(to-1, 0, a)
	}
	if a.isConst() {
		sh := uint(64 - w)
		return tt.BV(to, uint64(int64(a.cval<<sh)>>sh))
	}
	if a.op == "zext" { // sign bit known zero
		return tt.ZExt(to, a.args[0])
	}
	return tt.mk("sext", bvSort(to), to-w, 0, 0, "", a)
}

// ---- floating point

func (tt *TermTable) FPBin(op string, a, b *Term) *Term {
	if (op == "fp.add" || op == "fp.mul") && a.id > b.id {
		a, b = b, a // commutative (IEEE add/mul are, NaN payloads are not observable)
	}
	return tt.mk(op, a.sort, 0, 0, 0, "", a, b)
}
func (tt *TermTable) FPUn(op string, a *Term) *Term { return tt.mk(op, a.sort, 0, 0, 0, "", a) }
func (tt *TermTable) FPCmp(op string, a, b *Term) *Term {
	return tt.mk(op, SBool, 0, 0, 0, "", a, b)
}
func (tt *TermTable) FPPred(op string, a *Term) *Term { return tt.mk(op, SBool, 0, 0, 0, "", a) }

// integer (signed/unsigned BV) -> FP64, round nearest even
func (tt *TermTable) IntToFP(a *Term, signed bool, dst Sort) *Term {
	op := "to_fp_u"
	if signed {
		op = "to_fp_s"
	}
	return tt.mk(op, dst, 0, 0, 0, "", a)
}

// FP -> integer of width w (round toward zero); result unspecified when out of range
func (tt *TermTable) FPToInt(a *Term, signed bool, w int) *Term {
	op := "fp.to_ubv"
	if signed {
		op = "fp.to_sbv"
	}
	return tt.mk(op, bvSort(w), w, 0, 0, "", a)
}
func (tt *TermTable) FPToFP(a *Term, dst Sort) *Term {
	if a.sort == dst {
		return a
	}
	return tt.mk("fp.to_fp", dst, 0, 0, 0, "", a)
}

// ---- printing

func (t *Term) ref() string {
	switch t.op {
	case "const":
		switch t.sort {
		case SBool:
			if t.cval == 1 {
				return "true"
			}
			return "false"
		case SFP64:
			b := t.cval
			return fmt.Sprintf("(fp #b%d #b%011b #b%052b)", b>>63, (b>>52)&0x7ff, b&(1<<52-1))
		case SFP32:
			b := t.cval
			return fmt.Sprintf("(fp #b%d #b%08b #b%023b)", (b>>31)&1, (b>>23)&0xff, b&(1<<23-1))
		default:
			w := t.sort.Width()
			return fmt.Sprintf("#x%0*x", w/4, t.cval)
		}
	case "var":
		return "|in." + t.name + "|"
	}
	return "t" + strconv.Itoa(t.id)
}

// body prints the defining expression of a non-leaf term, referring to argument names.
func (t *Term) body() string {
	a := func(i int) string { return t.args[i].ref() }
	switch t.op {
	case "extract":
		return fmt.Sprintf("((_ extract %d %d) %s)", t.p1, t.p2, a(0))
	case "zext":
		return fmt.Sprintf("((_ zero_extend %d) %s)", t.p1, a(0))
	case "sext":
		return fmt.Sprintf("((_ sign_extend %d) %s)", t.p1, a(0))
	case "to_fp_s":
		return fmt.Sprintf("((_ to_fp %s) RNE %s)", fpParams(t.sort), a(0))
	case "to_fp_u":
		return fmt.Sprintf("((_ to_fp_unsigned %s) RNE %s)", fpParams(t.sort), a(0))
	case "fp.to_fp":
		return fmt.Sprintf("((_ to_fp %s) RNE %s)", fpParams(t.sort), a(0))
	case "fp.to_sbv":
		return fmt.Sprintf("((_ fp.to_sbv %d) RTZ %s)", t.p1, a(0))
	case "fp.to_ubv":
		return fmt.Sprintf("((_ fp.to_ubv %d) RTZ %s)", t.p1, a(0))
	case "fp.add", "fp.sub", "fp.mul", "fp.div":
		return fmt.Sprintf("(%s RNE %s %s)", t.op, a(0), a(1))
	case "fp.frombits":
		return fmt.Sprintf("((_ to_fp %s) %s)", fpParams(t.sort), a(0))
	}
	if strings.HasPrefix(t.op, "fp.roundToIntegral:") {
		return fmt.Sprintf("(fp.roundToIntegral %s %s)", t.op[len("fp.roundToIntegral:"):], a(0))
	}
	var sb strings.Builder
	sb.WriteByte('(')
	sb.WriteString(t.op)
	for i := range t.args {
		sb.WriteByte(' ')
		sb.WriteString(a(i))
	}
	sb.WriteByte(')')
	return sb.String()
}

func fpParams(s Sort) string {
	if s == SFP32 {
		return "8 24"
	}
	return "11 53"
}

// mentionsVar reports whether the term depends on at least one input variable.
func (t *Term) mentionsVar() bool {
	if t.op == "var" {
		return true
	}
	for _, a := range t.args {
		if a.mentionsVar() {
			return true
		}
	}
	return false
}
