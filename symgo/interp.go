package main

// The SSA interpreter proper. Structure follows golang.org/x/tools/go/ssa/interp
// (BSD licence, The Go Authors) with symbolic values, solver-decided branches,
// an undo log for heap writes, lazy package initialisation and cooperative threads.

import (
	"fmt"
	"go/token"
	"go/types"
	"os"
	"slices"
	"strings"

	"golang.org/x/tools/go/ssa"
)

type continuation int

const (
	kNext continuation = iota
	kReturn
	kJump
)

// targetPanic is a panic of the interpreted program (explicit or a Go run-time error).
type targetPanic struct {
	v       value
	runtime bool   // raised by the engine on behalf of the Go runtime
	msg     string // text for runtime panics
	where   string
}

func (p targetPanic) String() string {
	if p.runtime {
		return "runtime error: " + p.msg
	}
	return toString(p.v)
}

// pathAbort ends the current path; it is never visible to the interpreted program.
type pathAbort struct {
	kind string // "assume", "unsupported", "violation", "steps", "decisions", "solver", "killed", "exit", "deadlock"
	msg  string
}

type undoEntry struct {
	addr *value
	old  value
	fn   func()
}

type fnInfo struct {
	idx       map[ssa.Value]int
	n         int
	intrinsic intrinsicFn
	name      string
	isInit    bool
}

type deferred struct {
	fn    value
	args  []value
	instr *ssa.Defer
	tail  *deferred
}

type frame struct {
	i                *Interp
	th               *thread
	caller           *frame
	fn               *ssa.Function
	info             *fnInfo
	block, prevBlock *ssa.BasicBlock
	env              []value
	locals           []value
	defers           *deferred
	result           value
	panicking        bool
	panic            interface{}
	phitemps         []value
	curInstr         ssa.Instruction
	lastIAptr        *value  // most recent IndexAddr result and the slice it points into
	lastIAslice      []value // (for unsafe.String(&b[0], n) / unsafe.Slice)
}

type Interp struct {
	prog     *ssa.Program
	globals  map[*ssa.Global]*value
	pkgState map[*ssa.Package]int // 0 none, 1 initialising, 2 done
	fnInfos  map[*ssa.Function]*fnInfo
	tt       *TermTable
	solver   *Solver
	cfg      *RunConfig

	runtimeErrorType types.Type

	// per-path state
	path       *pathState
	undo       []undoEntry
	logging    bool
	steps      int64
	allocCells int64
	stubs      map[string]value
	clock      *Term
	nclock     int

	// threads
	threads       []*thread
	cur           *thread
	symSched      bool
	switches      int
	preemptBudget int  // >0: preemption-bounded scheduling (rt.PreemptBound)
	fpBitsSeq     int  // fresh names for math.Float64bits of symbolic floats
	memfs         bool // in-memory file system switched on (rt.MemFS)
	fsFiles       map[string]*memFile
	fsHandles     map[*value]*memHandle
	lateBudget    int     // >0: one goroutine may be chosen to start late (rt.LateGoroutine)
	lateVictim    *thread // the goroutine currently held back
	lateLeft      int     // how many more times the scheduler may pass it over
	pendingAbort  *pathAbort
	mutexes       map[*value]*mstate
	exp           *explorer
	ld            *Loaded
	curFr         *frame
	initErr       map[*ssa.Package]string
	bypass        *ssa.Function // the intrinsic of this function is skipped (engine calls the real body)
	inputSeq      map[string]int

	errorStringPtr types.Type
	wrapErrorPtr   types.Type

	// statistics accumulated over all paths of this worker
	funcsSeen   map[string]bool
	stubsUsed   map[string]bool
	initDepth   int
	traceIndent int
}

func (fr *frame) get(key ssa.Value) value {
	switch key := key.(type) {
	case nil:
		return nil
	case *ssa.Function, *ssa.Builtin:
		return key
	case *ssa.Const:
		return constValue(key)
	case *ssa.Global:
		return fr.i.globalAddr(key)
	}
	if ix, ok := fr.info.idx[key]; ok {
		return fr.env[ix]
	}
	panic(fmt.Sprintf("get: no value for %T: %v", key, key.Name()))
}

func (fr *frame) set(key ssa.Value, v value) {
	fr.env[fr.info.idx[key]] = v
}

func (i *Interp) globalAddr(g *ssa.Global) *value {
	if g.Pkg != nil && i.pkgState[g.Pkg] != 2 && i.pkgState[g.Pkg] != 1 {
		i.initPackage(g.Pkg)
		i.checkInitOK(g.Pkg)
	}
	if r, ok := i.globals[g]; ok {
		return r
	}
	cell := zero(deref(g.Type()))
	p := &cell
	i.globals[g] = p
	return p
}

// setCell is the only way heap cells are written (undo log).
func (i *Interp) setCell(addr *value, v value) {
	if i.logging {
		i.undo = append(i.undo, undoEntry{addr: addr, old: *addr})
	}
	*addr = v
}

func (i *Interp) logUndo(fn func()) {
	if i.logging {
		i.undo = append(i.undo, undoEntry{fn: fn})
	}
}

func (i *Interp) rollback() {
	for k := len(i.undo) - 1; k >= 0; k-- {
		e := i.undo[k]
		if e.fn != nil {
			e.fn()
		} else {
			*e.addr = e.old
		}
	}
	i.undo = i.undo[:0]
}

// store stores v of static type T into *addr (element-wise for aggregates, so that
// interior pointers stay valid).
func (i *Interp) store(T types.Type, addr *value, v value) {
	switch rhs := v.(type) {
	case structure:
		lhs, ok := (*addr).(structure)
		if !ok || len(lhs) != len(rhs) {
			i.setCell(addr, copyVal(v))
			return
		}
		for k := range lhs {
			i.store(nil, &lhs[k], rhs[k])
		}
	case array:
		lhs, ok := (*addr).(array)
		if !ok || len(lhs) != len(rhs) {
			i.setCell(addr, copyVal(v))
			return
		}
		for k := range lhs {
			i.store(nil, &lhs[k], rhs[k])
		}
	default:
		i.setCell(addr, v)
	}
}

func (i *Interp) info(fn *ssa.Function) *fnInfo {
	if fi, ok := i.fnInfos[fn]; ok {
		return fi
	}
	fi := &fnInfo{idx: map[ssa.Value]int{}, name: fn.String()}
	n := 0
	add := func(v ssa.Value) {
		fi.idx[v] = n
		n++
	}
	for _, p := range fn.Params {
		add(p)
	}
	for _, fv := range fn.FreeVars {
		add(fv)
	}
	for _, b := range fn.Blocks {
		for _, in := range b.Instrs {
			if v, ok := in.(ssa.Value); ok {
				add(v)
			}
		}
	}
	fi.n = n
	fi.isInit = fn.Synthetic == "package initializer"
	if fn.Parent() == nil {
		fi.intrinsic = lookupIntrinsic(fi.name)
		if fi.intrinsic == nil && strings.HasPrefix(fi.name, "(*regexp.Regexp).") && fn.Blocks != nil && fn.Object() != nil && fn.Object().Exported() {
			fi.intrinsic = regexpMethodIntrinsic(fn, fi.name)
		}
	}
	i.fnInfos[fn] = fi
	return fi
}

func (i *Interp) runtimePanic(fr *frame, format string, args ...interface{}) {
	msg := fmt.Sprintf(format, args...)
	where := ""
	if fr != nil && fr.curInstr != nil {
		where = i.prog.Fset.Position(fr.curInstr.Pos()).String()
		if fr.fn != nil {
			where = fr.fn.String() + " " + where
		}
	}
	// runtime.errorString's Error() adds the "runtime error: " prefix itself; a few run-time
	// panics are runtime.plainError values whose text has no prefix.
	for _, plain := range []string{"assignment to entry in nil map", "close of closed channel", "close of nil channel", "send on closed channel", "interface conversion:"} {
		if strings.HasPrefix(msg, plain) && i.ld != nil && i.ld.plainErrorType != nil {
			panic(targetPanic{v: iface{i.ld.plainErrorType, msg}, runtime: true, msg: msg, where: where})
		}
	}
	panic(targetPanic{v: iface{i.runtimeErrorType, msg}, runtime: true, msg: msg, where: where})
}

func (i *Interp) unsupported(format string, args ...interface{}) {
	panic(pathAbort{kind: "unsupported", msg: fmt.Sprintf(format, args...)})
}

func (fr *frame) runDefer(d *deferred) {
	var ok bool
	defer func() {
		if !ok {
			r := recover()
			if pa, isAbort := r.(pathAbort); isAbort {
				panic(pa)
			}
			fr.panicking = true
			fr.panic = r
		}
	}()
	fr.i.call(fr, d.instr.Pos(), d.fn, d.args)
	ok = true
}

func (fr *frame) runDefers() {
	for d := fr.defers; d != nil; d = d.tail {
		fr.runDefer(d)
	}
	fr.defers = nil
	if fr.panicking {
		panic(fr.panic)
	}
}

func (i *Interp) lookupMethod(typ types.Type, meth *types.Func) *ssa.Function {
	return i.prog.LookupMethod(typ, meth.Pkg(), meth.Name())
}

func (i *Interp) visitInstr(fr *frame, instr ssa.Instruction) continuation {
	switch instr := instr.(type) {
	case *ssa.DebugRef:
		// no-op

	case *ssa.UnOp:
		fr.set(instr, i.unop(fr, instr, fr.get(instr.X)))

	case *ssa.BinOp:
		fr.set(instr, i.binop(fr, instr.Op, instr.X.Type(), instr.Y.Type(), fr.get(instr.X), fr.get(instr.Y)))

	case *ssa.Call:
		fn, args := i.prepareCall(fr, &instr.Call)
		fr.set(instr, i.call(fr, instr.Pos(), fn, args))

	case *ssa.ChangeInterface:
		fr.set(instr, fr.get(instr.X))

	case *ssa.ChangeType:
		fr.set(instr, fr.get(instr.X))

	case *ssa.Convert:
		fr.set(instr, i.conv(fr, instr.Type(), instr.X.Type(), fr.get(instr.X)))

	case *ssa.SliceToArrayPointer:
		fr.set(instr, i.sliceToArrayPointer(fr, instr.Type(), instr.X.Type(), fr.get(instr.X)))

	case *ssa.MakeInterface:
		fr.set(instr, iface{t: instr.X.Type(), v: fr.get(instr.X)})

	case *ssa.Extract:
		fr.set(instr, fr.get(instr.Tuple).(tuple)[instr.Index])

	case *ssa.Slice:
		fr.set(instr, i.slice(fr, instr, fr.get(instr.X), fr.get(instr.Low), fr.get(instr.High), fr.get(instr.Max)))

	case *ssa.Return:
		switch len(instr.Results) {
		case 0:
		case 1:
			fr.result = fr.get(instr.Results[0])
		default:
			res := make([]value, 0, len(instr.Results))
			for _, r := range instr.Results {
				res = append(res, fr.get(r))
			}
			fr.result = tuple(res)
		}
		fr.block = nil
		return kReturn

	case *ssa.RunDefers:
		fr.runDefers()

	case *ssa.Panic:
		panic(targetPanic{v: fr.get(instr.X), where: i.prog.Fset.Position(instr.Pos()).String()})

	case *ssa.Send:
		i.chanSend(fr, fr.get(instr.Chan).(*channel), fr.get(instr.X))

	case *ssa.Store:
		addr := fr.get(instr.Addr).(*value)
		if addr == nil {
			i.runtimePanic(fr, "invalid memory address or nil pointer dereference")
		}
		i.store(deref(instr.Addr.Type()), addr, fr.get(instr.Val))

	case *ssa.If:
		succ := 1
		if i.truth(fr, fr.get(instr.Cond)) {
			succ = 0
		}
		fr.prevBlock, fr.block = fr.block, fr.block.Succs[succ]
		return kJump

	case *ssa.Jump:
		fr.prevBlock, fr.block = fr.block, fr.block.Succs[0]
		return kJump

	case *ssa.Defer:
		fn, args := i.prepareCall(fr, &instr.Call)
		defers := &fr.defers
		if instr.DeferStack != nil {
			if into := fr.get(instr.DeferStack); into != nil {
				defers = into.(**deferred)
			}
		}
		*defers = &deferred{fn: fn, args: args, instr: instr, tail: *defers}

	case *ssa.Go:
		fn, args := i.prepareCall(fr, &instr.Call)
		i.spawn(fr, instr.Pos(), fn, args)

	case *ssa.MakeChan:
		n := i.concreteInt(fr, fr.get(instr.Size))
		fr.set(instr, &channel{cap: int(n), elem: instr.Type().Underlying().(*types.Chan).Elem()})

	case *ssa.Alloc:
		var addr *value
		if instr.Heap {
			addr = new(value)
			fr.set(instr, addr)
		} else {
			addr = fr.get(instr).(*value)
		}
		*addr = zero(deref(instr.Type()))

	case *ssa.MakeSlice:
		c := i.concreteInt(fr, fr.get(instr.Cap))
		l := i.concreteInt(fr, fr.get(instr.Len))
		if l < 0 || c < l {
			i.runtimePanic(fr, "makeslice: len out of range")
		}
		if c > 1<<44 {
			// beyond what the Go runtime can ever allocate: it panics (len or cap out of range)
			i.runtimePanic(fr, "makeslice: len out of range")
		}
		if c > 1<<24 {
			i.unsupported("makeslice of %d elements", c)
		}
		i.chargeAlloc(int(c))
		s := make([]value, c)
		tElt := instr.Type().Underlying().(*types.Slice).Elem()
		z := zero(tElt)
		_, agg := z.(structure)
		_, agg2 := z.(array)
		for k := range s {
			if agg || agg2 {
				s[k] = zero(tElt)
			} else {
				s[k] = z
			}
		}
		fr.set(instr, s[:l])

	case *ssa.MakeMap:
		fr.set(instr, newOmap(instr.Type().Underlying().(*types.Map)))

	case *ssa.Range:
		fr.set(instr, i.rangeIter(fr, fr.get(instr.X), instr.X.Type()))

	case *ssa.Next:
		fr.set(instr, fr.get(instr.Iter).(iter).next(i, fr))

	case *ssa.FieldAddr:
		p := fr.get(instr.X).(*value)
		if p == nil {
			i.runtimePanic(fr, "invalid memory address or nil pointer dereference")
		}
		fr.set(instr, &(*p).(structure)[instr.Field])

	case *ssa.Field:
		fr.set(instr, copyVal(fr.get(instr.X).(structure)[instr.Field]))

	case *ssa.IndexAddr:
		x := fr.get(instr.X)
		switch x := x.(type) {
		case []value:
			if ref := i.symIndexRef(fr, instr, x, fr.get(instr.Index)); ref != nil {
				fr.set(instr, ref)
				break
			}
			idx := i.indexCheck(fr, fr.get(instr.Index), len(x))
			fr.set(instr, &x[idx])
			fr.lastIAptr, fr.lastIAslice = &x[idx], x[idx:]
		case *value: // *array
			if x == nil {
				i.runtimePanic(fr, "invalid memory address or nil pointer dereference")
			}
			a := (*x).(array)
			if ref := i.symIndexRef(fr, instr, a, fr.get(instr.Index)); ref != nil {
				fr.set(instr, ref)
				break
			}
			idx := i.indexCheck(fr, fr.get(instr.Index), len(a))
			fr.set(instr, &a[idx])
		default:
			panic(fmt.Sprintf("unexpected x type in IndexAddr: %T", x))
		}

	case *ssa.Index:
		x := fr.get(instr.X)
		switch x := x.(type) {
		case array:
			if v, ok := i.symSelect(fr, []value(x), fr.get(instr.Index), instr.Type()); ok {
				fr.set(instr, v)
				break
			}
			idx := i.indexCheck(fr, fr.get(instr.Index), len(x))
			fr.set(instr, copyVal(x[idx]))
		case string:
			if _, isT := fr.get(instr.Index).(*Term); isT {
				if v, ok := i.symSelect(fr, strBytes(x), fr.get(instr.Index), instr.Type()); ok {
					fr.set(instr, v)
					break
				}
			}
			idx := i.indexCheck(fr, fr.get(instr.Index), len(x))
			fr.set(instr, int64(x[idx]))
		case *symstr:
			if v, ok := i.symSelect(fr, x.b, fr.get(instr.Index), instr.Type()); ok {
				fr.set(instr, v)
				break
			}
			idx := i.indexCheck(fr, fr.get(instr.Index), len(x.b))
			fr.set(instr, x.b[idx])
		default:
			panic(fmt.Sprintf("unexpected x type in Index: %T", x))
		}

	case *ssa.Lookup:
		fr.set(instr, i.lookup(fr, instr, fr.get(instr.X), fr.get(instr.Index)))

	case *ssa.MapUpdate:
		m := fr.get(instr.Map).(*omap)
		if m == nil {
			i.runtimePanic(fr, "assignment to entry in nil map")
		}
		i.mapInsert(fr, m, fr.get(instr.Key), copyVal(fr.get(instr.Value)))

	case *ssa.TypeAssert:
		fr.set(instr, i.typeAssert(fr, instr, fr.get(instr.X).(iface)))

	case *ssa.MakeClosure:
		bindings := make([]value, 0, len(instr.Bindings))
		for _, binding := range instr.Bindings {
			bindings = append(bindings, fr.get(binding))
		}
		fr.set(instr, &closure{instr.Fn.(*ssa.Function), bindings})

	case *ssa.Phi:
		panic("unreachable: phi")

	case *ssa.Select:
		fr.set(instr, i.doSelect(fr, instr))

	default:
		panic(fmt.Sprintf("unexpected instruction: %T", instr))
	}
	return kNext
}

func (i *Interp) prepareCall(fr *frame, call *ssa.CallCommon) (fn value, args []value) {
	v := fr.get(call.Value)
	if call.Method == nil {
		fn = v
	} else {
		recv := v.(iface)
		if recv.t == nil {
			i.runtimePanic(fr, "invalid memory address or nil pointer dereference (method %s invoked on nil interface)", call.Method.Name())
		}
		if rt, ok := recv.t.(*extType); ok {
			// engine-provided dynamic type (e.g. native error)
			fn = rt.method(call.Method.Name())
			if fn == nil {
				i.unsupported("method %s on engine type %s", call.Method.Name(), rt.name)
			}
		} else if f := i.lookupMethod(recv.t, call.Method); f == nil {
			panic(fmt.Sprintf("method set for dynamic type %v does not contain %s", recv.t, call.Method))
		} else {
			fn = f
		}
		args = append(args, recv.v)
	}
	for _, arg := range call.Args {
		args = append(args, copyVal(fr.get(arg)))
	}
	return
}

func (i *Interp) call(caller *frame, callpos token.Pos, fn value, args []value) value {
	switch fn := fn.(type) {
	case *ssa.Function:
		if fn == nil {
			i.runtimePanic(caller, "invalid memory address or nil pointer dereference (call of nil func)")
		}
		return i.callSSA(caller, callpos, fn, args, nil)
	case *closure:
		return i.callSSA(caller, callpos, fn.Fn, args, fn.Env)
	case *ssa.Builtin:
		return i.callBuiltin(caller, callpos, fn, args)
	case *extFunc:
		return fn.f(i, caller, args)
	}
	panic(fmt.Sprintf("cannot call %T", fn))
}

func (i *Interp) callSSA(caller *frame, callpos token.Pos, fn *ssa.Function, args []value, env []value) value {
	info := i.info(fn)
	fr := &frame{i: i, caller: caller, fn: fn, info: info}
	if caller != nil {
		fr.th = caller.th
	} else {
		fr.th = i.cur
	}
	if info.isInit && caller != nil && caller.info.isInit && fn.Pkg != caller.fn.Pkg {
		// dependency initialisers are run lazily instead
		return nil
	}
	if fn.Parent() == nil {
		if i.stubs != nil {
			if st, ok := i.stubs[info.name]; ok {
				i.stubsUsed["rt.Stub:"+info.name] = true
				return i.call(caller, callpos, st, args)
			}
		}
		if info.intrinsic != nil && i.bypass != fn {
			i.stubsUsed[info.name] = true
			return info.intrinsic(i, fr, args)
		}
		if fn.Pkg != nil && i.pkgState[fn.Pkg] != 2 && i.pkgState[fn.Pkg] != 1 && !info.isInit {
			i.initPackage(fn.Pkg)
			i.checkInitOK(fn.Pkg)
		}
		if fn.Blocks == nil {
			chain := ""
			for f, k := caller, 0; f != nil && k < 6; f, k = f.caller, k+1 {
				chain += " <- " + f.fn.String()
			}
			i.unsupported("no code for function: %s%s", info.name, chain)
		}
	}
	if fn.TypeParams().Len() > 0 && len(fn.TypeArgs()) == 0 {
		i.unsupported("uninstantiated generic function %s", info.name)
	}
	if i.initDepth == 0 && !i.funcsSeen[info.name] {
		i.funcsSeen[info.name] = true
	}
	depth := 0
	if caller != nil {
		depth = callerDepth(caller)
		if depth > i.cfg.MaxCallDepth {
			panic(pathAbort{kind: "steps", msg: "call depth bound exceeded in " + info.name})
		}
	}
	if i.cfg.Trace {
		fmt.Fprintf(os.Stderr, "%s-> %s\n", strings.Repeat(" ", depth), info.name)
	}

	fr.env = make([]value, info.n)
	fr.block = fn.Blocks[0]
	if len(fn.Locals) > 0 {
		fr.locals = make([]value, len(fn.Locals))
		for k, l := range fn.Locals {
			fr.locals[k] = zero(deref(l.Type()))
			fr.set(l, &fr.locals[k])
		}
	}
	for k, p := range fn.Params {
		fr.env[info.idx[p]] = args[k]
	}
	for k, fv := range fn.FreeVars {
		fr.env[info.idx[fv]] = env[k]
	}
	for fr.block != nil {
		i.runFrame(fr)
	}
	return fr.result
}

func callerDepth(fr *frame) int {
	d := 0
	for f := fr; f != nil; f = f.caller {
		d++
	}
	return d
}

func (i *Interp) runFrame(fr *frame) {
	defer func() {
		if fr.block == nil {
			return // normal return
		}
		r := recover()
		if pa, ok := r.(pathAbort); ok {
			panic(pa)
		}
		if _, ok := r.(targetPanic); !ok {
			// engine bug or Go runtime error inside the engine: not a target panic
			if ee, isEE := r.(engineError); isEE {
				panic(ee)
			}
			if r != nil {
				panic(engineError{r: r, where: fr.describe()})
			}
		}
		fr.panicking = true
		fr.panic = r
		fr.runDefers()
		fr.block = fr.fn.Recover
	}()

	for {
		nonPhis := i.executePhis(fr)
		for _, instr := range nonPhis {
			i.steps++
			if i.steps > i.cfg.MaxSteps && i.initDepth == 0 {
				panic(pathAbort{kind: "steps", msg: fmt.Sprintf("step bound %d exceeded in %s", i.cfg.MaxSteps, fr.fn)})
			}
			fr.curInstr = instr
			i.curFr = fr
			if i.visitInstr(fr, instr) == kReturn {
				return
			}
		}
	}
}

type engineError struct {
	r     interface{}
	where string
}

func (fr *frame) describe() string {
	var sb strings.Builder
	for f := fr; f != nil; f = f.caller {
		pos := ""
		if f.curInstr != nil {
			pos = f.i.prog.Fset.Position(f.curInstr.Pos()).String()
			pos += fmt.Sprintf(" [%v]", f.curInstr)
		}
		fmt.Fprintf(&sb, "  in %s %s\n", f.fn, pos)
		if sb.Len() > 4000 {
			break
		}
	}
	return sb.String()
}

func (i *Interp) executePhis(fr *frame) []ssa.Instruction {
	firstNonPhi := -1
	for k, instr := range fr.block.Instrs {
		if _, ok := instr.(*ssa.Phi); !ok {
			firstNonPhi = k
			break
		}
	}
	nonPhis := fr.block.Instrs[firstNonPhi:]
	if firstNonPhi > 0 {
		phis := fr.block.Instrs[:firstNonPhi]
		predIndex := slices.Index(fr.block.Preds, fr.prevBlock)
		fr.phitemps = fr.phitemps[:0]
		for _, phi := range phis {
			phi := phi.(*ssa.Phi)
			fr.phitemps = append(fr.phitemps, fr.get(phi.Edges[predIndex]))
		}
		for k, phi := range phis {
			fr.set(phi.(*ssa.Phi), fr.phitemps[k])
		}
	}
	return nonPhis
}

func (i *Interp) doRecover(caller *frame) value {
	if caller != nil && !caller.panicking &&
		caller.caller != nil && caller.caller.panicking {
		caller.caller.panicking = false
		p := caller.caller.panic
		caller.caller.panic = nil
		switch p := p.(type) {
		case targetPanic:
			if i.path != nil {
				i.path.recovered = append(i.path.recovered, p.String())
			}
			if i.cfg.Verbose {
				fmt.Fprintf(os.Stderr, "[recovered by %s] %s @ %s\n", caller.fn, p.String(), p.where)
			}
			return p.v
		default:
			panic(fmt.Sprintf("unexpected panic type %T in target call to recover()", p))
		}
	}
	return iface{}
}

// ---- lazy package initialisation

var noInitPkgs = map[string]bool{
	"runtime": true, "os": true, "syscall": true, "time": true, "reflect": true,
	"sync": true, "sync/atomic": true, "internal/poll": true, "internal/syscall/unix": true,
	"os/exec": true, "os/signal": true, "os/user": true, "net": true, "net/http": true,
	"crypto/rand": true, "math/rand": true, "math/rand/v2": true, "internal/godebug": true,
	"internal/cpu": true, "internal/bytealg": true, "log": true, "testing": true,
	"internal/reflectlite": true, "fmt": true,
	"encoding/json": true, "unsafe": true, "internal/abi": true, "internal/oserror": true,
	"io/fs": true, "path/filepath": true, "internal/testlog": true, "internal/race": true,
	"crypto/md5": true, "crypto/sha1": true, "crypto/sha256": true, "crypto/sha512": true, "hash/crc32": true,
	"encoding/binary": true, "internal/byteorder": true, "database/sql": true, "internal/filepathlite": true,
}

func (i *Interp) initPackage(pkg *ssa.Package) {
	if i.pkgState[pkg] != 0 {
		return
	}
	i.pkgState[pkg] = 1
	path := pkg.Pkg.Path()
	if noInitPkgs[path] || !strings.HasPrefix(path, "github.com/lmorg/murex") && isOpaquePath(path) {
		i.pkgState[pkg] = 2
		return
	}
	// murex packages are initialised in Go's order (imports first): their init() functions
	// register parsers, builtins and data types into package-level tables of lang.
	if strings.HasPrefix(path, "github.com/lmorg/murex") {
		for _, imp := range pkg.Pkg.Imports() {
			if strings.HasPrefix(imp.Path(), "github.com/lmorg/murex") {
				if dep := i.prog.Package(imp); dep != nil {
					i.initPackage(dep)
				}
			}
		}
	}
	initFn := pkg.Func("init")
	if initFn == nil {
		i.pkgState[pkg] = 2
		return
	}
	savedLog, savedPath, savedSteps := i.logging, i.path, i.steps
	i.logging = false
	i.initDepth++
	if i.cfg.Trace {
		fmt.Fprintf(os.Stderr, "== init %s\n", path)
	}
	failed := false
	func() {
		defer func() {
			i.initDepth--
			i.logging = savedLog
			i.path = savedPath
			i.steps = savedSteps
			if r := recover(); r != nil {
				if pa, ok := r.(pathAbort); ok && pa.kind == "unsupported" {
					// the package cannot be initialised by the engine (it touches the OS): it is
					// marked failed; only a later use of the package ends a path
					failed = true
					if i.initErr == nil {
						i.initErr = map[*ssa.Package]string{}
					}
					i.initErr[pkg] = "in init of " + path + ": " + pa.msg
					return
				}
				panic(r)
			}
		}()
		i.callSSA(nil, token.NoPos, initFn, nil, nil)
	}()
	if failed {
		i.pkgState[pkg] = 3
		return
	}
	i.pkgState[pkg] = 2
}

func (i *Interp) checkInitOK(pkg *ssa.Package) {
	if i.pkgState[pkg] == 3 {
		panic(pathAbort{kind: "unsupported", msg: i.initErr[pkg]})
	}
}

func isOpaquePath(path string) bool {
	for _, p := range []string{"crypto/", "internal/", "hash/", "vendor/golang.org/x/crypto", "modernc.org/", "github.com/mattn/go-sqlite3", "golang.org/x/sys", "github.com/creack/pty", "github.com/fsnotify"} {
		if strings.HasPrefix(path, p) {
			return true
		}
	}
	return false
}
