package main

// In-memory file system (opt-in per path through rt.MemFS(true)): regular files only, keyed by
// their (concrete) name; contents are byte values and may be symbolic. Without the opt-in the
// engine keeps its default model: an empty file system that discards writes.
//
// Modelled: os.OpenFile/Open/Create (O_CREATE, O_TRUNC, O_APPEND, O_EXCL, access mode),
// os.ReadFile/WriteFile/Stat/Lstat/Remove/RemoveAll, (*os.File).Read/Write/WriteString/ReadFrom/
// Close/Name/Stat/Sync/Seek(0,0). Errors are *fs.PathError values wrapping syscall.ENOENT /
// EEXIST / EBADF so that os.IsNotExist and errors.Is behave as with the real package.

import (
	"go/types"
)

type memFile struct{ data []value }

type memHandle struct {
	f      *memFile
	name   string
	pos    int
	app    bool
	rd, wr bool
	closed bool
}

const (
	oWRONLY = 0x1
	oRDWR   = 0x2
	oCREATE = 0x40
	oEXCL   = 0x80
	oTRUNC  = 0x200
	oAPPEND = 0x400
)

func (i *Interp) pathError(op, name string, errno int64) value {
	fsp := i.ld.byPath["io/fs"]
	sys := i.ld.byPath["syscall"]
	if fsp == nil || sys == nil {
		return i.mkError(op + " " + name + ": errno " + itoa(errno))
	}
	pe := zero(fsp.Type("PathError").Object().Type()).(structure)
	pe[0], pe[1] = op, name
	pe[2] = iface{t: sys.Type("Errno").Object().Type(), v: errno}
	v := value(pe)
	return iface{t: types.NewPointer(fsp.Type("PathError").Object().Type()), v: &v}
}

func itoa(n int64) string {
	if n == 0 {
		return "0"
	}
	s := ""
	for n > 0 {
		s = string(rune('0'+n%10)) + s
		n /= 10
	}
	return s
}

func (i *Interp) ioEOF() value {
	p := i.ld.byPath["io"]
	return *i.globalAddr(p.Var("EOF"))
}

func (i *Interp) newFileValue(h *memHandle) value {
	osp := i.ld.byPath["os"]
	cell := zero(osp.Type("File").Object().Type())
	p := &cell
	i.fsHandles[p] = h
	return p
}

func (i *Interp) fileInfo(name string, size int) value {
	osp := i.ld.byPath["os"]
	t := osp.Type("fileStat").Object().Type()
	st := zero(t).(structure)
	base := name
	for k := len(name) - 1; k >= 0; k-- {
		if name[k] == '/' {
			base = name[k+1:]
			break
		}
	}
	st[0], st[1], st[2] = base, int64(size), int64(0o644)
	v := value(st)
	return iface{t: types.NewPointer(t), v: &v}
}

func (i *Interp) memOpen(name string, flag int64) value {
	f, ok := i.fsFiles[name]
	switch {
	case !ok && flag&oCREATE == 0:
		return tuple{(*value)(nil), i.pathError("open", name, 2)}
	case ok && flag&oCREATE != 0 && flag&oEXCL != 0:
		return tuple{(*value)(nil), i.pathError("open", name, 17)}
	case !ok:
		f = &memFile{}
		i.fsFiles[name] = f
	}
	if flag&oTRUNC != 0 {
		f.data = nil
	}
	h := &memHandle{f: f, name: name, app: flag&oAPPEND != 0, rd: flag&(oWRONLY) == 0, wr: flag&(oWRONLY|oRDWR) != 0}
	return tuple{i.newFileValue(h), iface{}}
}

func (i *Interp) handleOf(v value) *memHandle {
	p, _ := v.(*value)
	if p == nil {
		return nil
	}
	return i.fsHandles[p]
}

func (h *memHandle) write(b []value) {
	if h.app {
		h.pos = len(h.f.data)
	}
	for len(h.f.data) < h.pos {
		h.f.data = append(h.f.data, int64(0))
	}
	// copy-on-write: other slices of the old contents (returned by ReadFile) stay intact
	nd := append([]value{}, h.f.data[:h.pos]...)
	nd = append(nd, b...)
	if h.pos+len(b) < len(h.f.data) {
		nd = append(nd, h.f.data[h.pos+len(b):]...)
	}
	h.f.data = nd
	h.pos += len(b)
}

func init() {
	wrap := func(name string, f func(old intrinsicFn) intrinsicFn) {
		intrinsics[name] = f(intrinsics[name])
	}
	intrinsics[rtPkg+".MemFS"] = func(i *Interp, fr *frame, a []value) value {
		i.memfs = a[0].(bool)
		return nil
	}
	wrap("os.OpenFile", func(old intrinsicFn) intrinsicFn {
		return func(i *Interp, fr *frame, a []value) value {
			if !i.memfs {
				return old(i, fr, a)
			}
			return i.memOpen(concreteString(i, a[0], "file name"), i.concreteInt(fr, a[1]))
		}
	})
	wrap("os.Open", func(old intrinsicFn) intrinsicFn {
		return func(i *Interp, fr *frame, a []value) value {
			if !i.memfs {
				return old(i, fr, a)
			}
			return i.memOpen(concreteString(i, a[0], "file name"), 0)
		}
	})
	wrap("os.Create", func(old intrinsicFn) intrinsicFn {
		return func(i *Interp, fr *frame, a []value) value {
			if !i.memfs {
				return old(i, fr, a)
			}
			return i.memOpen(concreteString(i, a[0], "file name"), oRDWR|oCREATE|oTRUNC)
		}
	})
	wrap("os.ReadFile", func(old intrinsicFn) intrinsicFn {
		return func(i *Interp, fr *frame, a []value) value {
			if !i.memfs {
				return old(i, fr, a)
			}
			name := concreteString(i, a[0], "file name")
			f, ok := i.fsFiles[name]
			if !ok {
				return tuple{[]value(nil), i.pathError("open", name, 2)}
			}
			out := make([]value, len(f.data))
			copy(out, f.data)
			return tuple{out, iface{}}
		}
	})
	wrap("os.WriteFile", func(old intrinsicFn) intrinsicFn {
		return func(i *Interp, fr *frame, a []value) value {
			if !i.memfs {
				return old(i, fr, a)
			}
			name := concreteString(i, a[0], "file name")
			i.fsFiles[name] = &memFile{data: append([]value{}, a[1].([]value)...)}
			return iface{}
		}
	})
	stat := func(op string) func(old intrinsicFn) intrinsicFn {
		return func(old intrinsicFn) intrinsicFn {
			return func(i *Interp, fr *frame, a []value) value {
				if !i.memfs {
					return old(i, fr, a)
				}
				name := concreteString(i, a[0], "file name")
				f, ok := i.fsFiles[name]
				if !ok {
					return tuple{iface{}, i.pathError(op, name, 2)}
				}
				return tuple{i.fileInfo(name, len(f.data)), iface{}}
			}
		}
	}
	wrap("os.Stat", stat("stat"))
	wrap("os.Lstat", stat("lstat"))
	remove := func(old intrinsicFn) intrinsicFn {
		return func(i *Interp, fr *frame, a []value) value {
			if !i.memfs {
				return old(i, fr, a)
			}
			name := concreteString(i, a[0], "file name")
			if _, ok := i.fsFiles[name]; !ok {
				return i.pathError("remove", name, 2)
			}
			delete(i.fsFiles, name)
			return iface{}
		}
	}
	wrap("os.Remove", remove)
	wrap("os.RemoveAll", func(old intrinsicFn) intrinsicFn {
		return func(i *Interp, fr *frame, a []value) value {
			if !i.memfs {
				return old(i, fr, a)
			}
			delete(i.fsFiles, concreteString(i, a[0], "file name"))
			return iface{}
		}
	})
	writeFn := func(old intrinsicFn) intrinsicFn {
		return func(i *Interp, fr *frame, a []value) value {
			h := i.handleOf(a[0])
			if h == nil {
				return old(i, fr, a)
			}
			var b []value
			switch x := a[1].(type) {
			case []value:
				b = x
			default:
				b = strBytes(x)
			}
			if h.closed || !h.wr {
				return tuple{int64(0), i.pathError("write", h.name, 9)}
			}
			h.write(b)
			return tuple{int64(len(b)), iface{}}
		}
	}
	wrap("(*os.File).Write", writeFn)
	wrap("(*os.File).WriteString", writeFn)
	wrap("(*os.File).Close", func(old intrinsicFn) intrinsicFn {
		return func(i *Interp, fr *frame, a []value) value {
			h := i.handleOf(a[0])
			if h == nil {
				return old(i, fr, a)
			}
			if h.closed {
				return i.pathError("close", h.name, 9)
			}
			h.closed = true
			return iface{}
		}
	})
	intrinsics["(*os.File).Read"] = func(i *Interp, fr *frame, a []value) value {
		h := i.handleOf(a[0])
		b, _ := a[1].([]value)
		if h == nil {
			// stdin and friends: end of input
			return tuple{int64(0), i.ioEOF()}
		}
		if h.closed || !h.rd {
			return tuple{int64(0), i.pathError("read", h.name, 9)}
		}
		if len(b) == 0 {
			return tuple{int64(0), iface{}}
		}
		if h.pos >= len(h.f.data) {
			return tuple{int64(0), i.ioEOF()}
		}
		n := copyCells(i, b, h.f.data[h.pos:])
		h.pos += n
		return tuple{int64(n), iface{}}
	}
	intrinsics["(*os.File).ReadFrom"] = func(i *Interp, fr *frame, a []value) value {
		h := i.handleOf(a[0])
		src := a[1].(iface)
		read := i.findMethod(src.t, "Read")
		if read == nil {
			i.unsupported("(*os.File).ReadFrom: source without Read")
		}
		var total int64
		for rounds := 0; rounds < 1<<20; rounds++ {
			buf := make([]value, 4096)
			for k := range buf {
				buf[k] = int64(0)
			}
			r := i.call(fr, 0, read, []value{src.v, buf}).(tuple)
			n := i.concreteInt(fr, r[0])
			if n > 0 {
				if h != nil {
					if h.closed || !h.wr {
						return tuple{total, i.pathError("write", h.name, 9)}
					}
					h.write(append([]value{}, buf[:n]...))
				}
				total += n
			}
			if e := r[1].(iface); e.t != nil {
				eof := i.ioEOF().(iface)
				if sameDynType(e.t, eof.t) && e.v == eof.v {
					return tuple{total, iface{}}
				}
				return tuple{total, e}
			}
		}
		i.unsupported("(*os.File).ReadFrom: reader never ends")
		return nil
	}
	intrinsics["(*os.File).Name"] = func(i *Interp, fr *frame, a []value) value {
		if h := i.handleOf(a[0]); h != nil {
			return h.name
		}
		return "/dev/verif"
	}
	intrinsics["(*os.File).Stat"] = func(i *Interp, fr *frame, a []value) value {
		if h := i.handleOf(a[0]); h != nil {
			return tuple{i.fileInfo(h.name, len(h.f.data)), iface{}}
		}
		return tuple{iface{}, i.pathError("stat", "/dev/verif", 9)}
	}
	intrinsics["(*os.File).Seek"] = func(i *Interp, fr *frame, a []value) value {
		h := i.handleOf(a[0])
		if h == nil {
			return tuple{int64(0), i.pathError("seek", "/dev/verif", 29)}
		}
		off, whence := i.concreteInt(fr, a[1]), i.concreteInt(fr, a[2])
		switch whence {
		case 0:
			h.pos = int(off)
		case 1:
			h.pos += int(off)
		case 2:
			h.pos = len(h.f.data) + int(off)
		}
		if h.pos < 0 {
			h.pos = 0
		}
		return tuple{int64(h.pos), iface{}}
	}
}

func copyCells(i *Interp, dst, src []value) int {
	n := len(dst)
	if len(src) < n {
		n = len(src)
	}
	for k := 0; k < n; k++ {
		i.setCell(&dst[k], src[k])
	}
	return n
}
