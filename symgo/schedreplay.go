package main

// Schedule counterexamples: a violation that depends on the interleaving of goroutines
// cannot be forced on the Go scheduler of a native run. For harnesses marked
// `schedule_replay` the recorded decision trace (inputs + scheduling decisions) is
// re-executed deterministically by the engine; a native stress run is attempted as well.

import (
	"golang.org/x/tools/go/ssa"
)

func engineReplay(ld *Loaded, fn *ssa.Function, cfg *RunConfig, v *Violation) bool {
	if len(v.Trace) == 0 {
		return false
	}
	cfg.InitialPrefix = append([]Decision(nil), v.Trace...)
	cfg.MaxPaths = 1
	cfg.Workers = 1
	cfg.MaxViolations = 1
	st := Explore(ld, fn, cfg)
	return len(st.Violations) > 0 && st.Violations[0].Kind == v.Kind
}
