package main

// `symgo check <id> <tier>`: run all harnesses of one property, replay counterexamples
// natively, compare with known_findings.json, write evidence/<id>.json.

import (
	"bytes"
	"encoding/json"
	"fmt"
	"os"
	"os/exec"
	"path/filepath"
	"sort"
	"strconv"
	"strings"
	"time"

	"golang.org/x/tools/go/ssa"
)

type HarnessSpec struct {
	Func          string           `json:"func"`
	Package       string           `json:"package,omitempty"`
	Quick         map[string]int64 `json:"quick"`
	Thorough      map[string]int64 `json:"thorough"`
	Reach         []string         `json:"reach,omitempty"`
	HangIsFinding bool             `json:"hang_is_finding,omitempty"`
	MaxSteps      int64            `json:"max_steps,omitempty"`
	MaxDecisions  int              `json:"max_decisions,omitempty"`
	MaxThreads    int              `json:"max_threads,omitempty"`
	ReplayFunc    string           `json:"replay_func,omitempty"` // native function to run for replay (default: Func)
	ReplayPackage string           `json:"replay_package,omitempty"`
	NoReplay      string           `json:"no_replay,omitempty"`   // reason why a counterexample cannot be replayed natively
	ScheduleReplay bool            `json:"schedule_replay,omitempty"` // counterexamples are schedules: confirm by engine re-execution when the native (stress) replay misses
	ReplayRuns    int              `json:"replay_runs,omitempty"`     // native replay runs the harness this many times (stress)
	Bounds        string           `json:"bounds"`
	What          string           `json:"what"`
	QuickOnly     bool             `json:"quick_only,omitempty"`
	ThoroughOnly  bool             `json:"thorough_only,omitempty"`
	SolverTimeout int              `json:"solver_timeout_s,omitempty"`
	Solver        string           `json:"solver,omitempty"`
	VectorsFunc   string           `json:"vectors_func,omitempty"`
	NoTwin        bool             `json:"no_twin,omitempty"`
}

type Spec struct {
	Property    string            `json:"property"`
	Package     string            `json:"package"`
	Files       map[string]string `json:"files"`
	Extra       []string          `json:"extra_packages,omitempty"`
	Harnesses   []HarnessSpec     `json:"harnesses"`
	Assumptions []string          `json:"assumptions"`
	Outside     []string          `json:"outside"`
	Internal    []string          `json:"internal_identifiers,omitempty"`
	// native replay only: build tags of murex itself to compile with, and textual substitutions
	// applied to the *current* repo sources (overlay; e.g. time.Now() -> the harness clock) so a
	// counterexample that depends on an environment value can be replayed on compiled code
	ReplayTags    string          `json:"replay_tags,omitempty"`
	ReplayRewrite []RewriteSpec   `json:"replay_rewrite,omitempty"`
}

type RewriteSpec struct {
	File string `json:"file"` // path relative to the repo
	From string `json:"from"`
	To   string `json:"to"`
	Min  int    `json:"min"` // the substitution must apply at least this many times
}

type KnownFinding struct {
	Property string `json:"property"`
	ID       string `json:"id"`
	Status   string `json:"status"` // "open" | "fixed"
	Harness  string `json:"harness"`
	What     string `json:"what"`
	Commit   string `json:"commit,omitempty"`
	// identification by failing call site (alternative to an input predicate in the harness)
	MatchMsg   string `json:"match_msg,omitempty"`
	MatchWhere string `json:"match_where,omitempty"`
	MatchKind  string `json:"match_kind,omitempty"`
}

type harnessResult struct {
	Func        string              `json:"func"`
	What        string              `json:"what"`
	Bounds      string              `json:"bounds"`
	Params      map[string]int64    `json:"params"`
	Paths       int64               `json:"paths"`
	Completed   int64               `json:"completed_paths"`
	Forks       int64               `json:"forks"`
	Decisions   int64               `json:"decisions"`
	Obligations int64               `json:"obligations"`
	Discharged  int64               `json:"discharged"`
	Queries     int64               `json:"queries"`
	SolverS     float64             `json:"solver_s"`
	WallS       float64             `json:"wall_s"`
	Nontrivial  int64               `json:"distinct_nontrivial_paths"`
	Unsupported map[string]int      `json:"unsupported_paths,omitempty"`
	BoundHits   map[string]int      `json:"unwinding_hits,omitempty"`
	Reached     map[string]int      `json:"reach_witnesses,omitempty"`
	Approx      map[string]int      `json:"approximations,omitempty"`
	Verdict     string              `json:"verdict"`
	Twin        string              `json:"twin,omitempty"`
	Cross       string              `json:"solver_crosscheck,omitempty"`
	Samples     []map[string]string `json:"-"`
}

func loadKnown(dir string) []KnownFinding {
	b, err := os.ReadFile(filepath.Join(dir, "known_findings.json"))
	if err != nil {
		return nil
	}
	var k struct {
		Findings []KnownFinding `json:"findings"`
	}
	if err := json.Unmarshal(b, &k); err != nil {
		fmt.Fprintln(os.Stderr, "known_findings.json:", err)
		return nil
	}
	return k.Findings
}

func cmdCheck(args []string) int {
	if len(args) < 2 {
		fmt.Fprintln(os.Stderr, "usage: symgo check <id> quick|thorough [--replay file]")
		return 2
	}
	id, tier := args[0], args[1]
	vdir := verifDir()
	if tier == "--replay" {
		if len(args) < 3 {
			return 2
		}
		return replayFile(vdir, id, args[2])
	}
	t0 := time.Now()
	seed, _ := strconv.Atoi(os.Getenv("VERIF_SEED"))
	hdir := filepath.Join(vdir, "harness", id)
	var spec Spec
	b, err := os.ReadFile(filepath.Join(hdir, "spec.json"))
	if err != nil {
		fmt.Fprintln(os.Stderr, err)
		return 2
	}
	if err := json.Unmarshal(b, &spec); err != nil {
		fmt.Fprintln(os.Stderr, "spec.json:", err)
		return 2
	}
	known := []KnownFinding{}
	for _, k := range loadKnown(vdir) {
		if k.Property == id {
			known = append(known, k)
		}
	}

	fm := map[string]string{"zzverif/rt/rt.go": filepath.Join(vdir, "rt", "rt.go")}
	for virt, real := range spec.Files {
		fm[virt] = filepath.Join(hdir, real)
	}
	ov, err := buildOverlay(repoDir(), fm)
	if err != nil {
		fmt.Fprintln(os.Stderr, err)
		return 2
	}
	pkgs := map[string]bool{spec.Package: true}
	for _, h := range spec.Harnesses {
		if h.Package != "" {
			pkgs[h.Package] = true
		}
	}
	pats := append(sortedKeys(pkgs), spec.Extra...)
	tl := time.Now()
	ld, err := loadProgram(repoDir(), ov, pats, "")
	if err != nil {
		fmt.Printf("INCONCLUSIVE property=%s: harness does not load against the current tree:\n%v\n", id, err)
		writeEvidence(vdir, id, tier, seed, nil, nil, &spec, 0, time.Since(t0).Seconds(), []string{"load error: " + err.Error()}, 0)
		return 2
	}
	loadS := time.Since(tl).Seconds()

	workers := 8
	if tier == "thorough" {
		workers = 16
	}
	if w := os.Getenv("VERIF_WORKERS"); w != "" {
		workers, _ = strconv.Atoi(w)
	}

	var results []*harnessResult
	var problems []string
	funcs := map[string]bool{}
	stubs := map[string]bool{}
	exit := 0
	violations := 0
	replays := 0
	knownSeen := map[string]bool{}

	for _, h := range spec.Harnesses {
		if tier == "quick" && h.ThoroughOnly || tier == "thorough" && h.QuickOnly {
			continue
		}
		pkgPath := spec.Package
		if h.Package != "" {
			pkgPath = h.Package
		}
		p := ld.byPath[pkgPath]
		var fn *ssa.Function
		if p != nil {
			fn = p.Func(h.Func)
		}
		if fn == nil {
			problems = append(problems, "harness function not found: "+h.Func)
			exit = 2
			continue
		}
		params := h.Quick
		if tier == "thorough" && h.Thorough != nil {
			params = h.Thorough
		}
		mkcfg := func() *RunConfig {
			cfg := defaultConfig()
			cfg.Workers = workers
			cfg.Params = map[string]int64{}
			for k, v := range params {
				cfg.Params[k] = v
			}
			cfg.HangIsFinding = h.HangIsFinding
			if h.MaxSteps > 0 {
				cfg.MaxSteps = h.MaxSteps
			}
			if h.MaxDecisions > 0 {
				cfg.MaxDecisions = h.MaxDecisions
			}
			if h.MaxThreads > 0 {
				cfg.MaxThreads = h.MaxThreads
			}
			if h.SolverTimeout > 0 {
				cfg.SolverTimeout = time.Duration(h.SolverTimeout) * time.Second
			}
			if h.Solver != "" {
				cfg.SolverKind = h.Solver
			}
			cfg.MaxViolations = 4
			cfg.Seed = seed
			// wall-clock budget per exploration: a run that exceeds it is INCONCLUSIVE, never a pass
			limit := 15 * time.Minute
			if tier == "thorough" {
				limit = 60 * time.Minute
			}
			if d := os.Getenv("VERIF_DEADLINE_S"); d != "" {
				if n, err := strconv.Atoi(d); err == nil {
					limit = time.Duration(n) * time.Second
				}
			}
			cfg.Deadline = time.Now().Add(limit)
			cfg.Known = map[string]bool{}
			for _, k := range known {
				if k.Status != "open" {
					continue
				}
				if k.MatchMsg != "" || k.MatchWhere != "" {
					if k.Harness == "" || harnessListed(k.Harness, h.Func) {
						cfg.KnownSigs = append(cfg.KnownSigs, KnownSig{ID: k.ID, MatchMsg: k.MatchMsg, MatchWhere: k.MatchWhere, MatchKind: k.MatchKind})
					}
				} else {
					cfg.Known[k.ID] = true
				}
			}
			return cfg
		}
		th := time.Now()
		cfg := mkcfg()
		st := Explore(ld, fn, cfg)
		hr := &harnessResult{Func: h.Func, What: h.What, Bounds: h.Bounds, Params: params,
			Paths: st.Paths, Completed: st.Completed, Forks: st.Forks, Decisions: st.Decisions,
			Obligations: st.Obligations, Discharged: st.Discharged, Queries: st.Queries, SolverS: st.SolverSeconds,
			Nontrivial: st.Nontrivial, Unsupported: st.Unsupported, BoundHits: st.BoundHits, Reached: st.Reached, Approx: st.Approx,
			Samples: st.Samples}
		for f := range st.Funcs {
			funcs[f] = true
		}
		for f := range st.Stubs {
			stubs[f] = true
		}
		verdict := "HOLDS-WITHIN-BOUND"
		inconclusive := func(why string) {
			problems = append(problems, h.Func+": "+why)
			if verdict == "HOLDS-WITHIN-BOUND" {
				verdict = "INCONCLUSIVE"
			}
			if exit == 0 {
				exit = 2
			}
		}
		for k, n := range st.Unsupported {
			inconclusive(fmt.Sprintf("unsupported x%d: %s", n, k))
		}
		for k, n := range st.BoundHits {
			inconclusive(fmt.Sprintf("bound hit x%d: %s", n, k))
		}
		for _, e := range st.EngineErrors {
			inconclusive("engine error: " + e)
		}
		for _, e := range st.SolverErrors {
			inconclusive("solver error: " + e)
		}
		if st.TimedOut {
			inconclusive("deadline")
		}
		if st.Completed == 0 && len(st.Violations) == 0 {
			inconclusive("no completed path")
		}
		reachedAll := map[string]int{}
		for l, n := range st.Reached {
			reachedAll[l] += n
		}
		// (reach witnesses are judged after the known-finding runs: a label may only be
		// reachable on inputs that an open known finding sets aside)
		// violations of the main run (known findings excluded by assumption)
		for n, v := range st.Violations {
			rp := writeReplay(vdir, id, h, v, params, n)
			ok, out := nativeReplay(vdir, &spec, hdir, h, pkgPath, rp)
			replays++
			how := "replayed natively"
			if !ok && h.ScheduleReplay {
				// the counterexample is a goroutine schedule: confirm it by deterministic
				// re-execution of its decision trace in the engine
				if engineReplay(ld, fn, mkcfg(), v) {
					ok = true
					how = "schedule counterexample: re-executed deterministically by the engine (a native stress run did not hit the interleaving: " + lastLines(out, 1) + ")"
				}
			}
			if ok {
				fmt.Printf("VIOLATION property=%s replay=%s\n", id, rp)
				fmt.Printf("  harness=%s kind=%s: %s\n  inputs: %s\n  confirmation: %s\n", h.Func, v.Kind, v.Msg, prettyJSON(v.Pretty), how)
				verdict = "VIOLATION"
				violations++
				exit = 1
			} else {
				inconclusive(fmt.Sprintf("counterexample did not reproduce natively (%s): %s -- %s", rp, v.Msg, lastLines(out, 6)))
			}
		}
		// known findings identified by call site: tallied by the main run
		for _, k := range known {
			if k.Status != "open" || (k.MatchMsg == "" && k.MatchWhere == "") || (k.Harness != "" && !harnessListed(k.Harness, h.Func)) {
				continue
			}
			hits := st.KnownHits[k.ID]
			if len(hits) == 0 {
				if harnessListed(k.Harness, h.Func) {
					fmt.Printf("KNOWN-FINDING-GONE: property=%s [%s] not observed within the bound by %s (%s)\n", id, k.ID, h.Func, k.What)
				}
				continue
			}
			v := hits[0]
			rp := writeReplay(vdir, id, h, v, params, 200+len(knownSeen))
			ok, out := nativeReplay(vdir, &spec, hdir, h, pkgPath, rp)
			replays++
			if ok {
				if !knownSeen[k.ID] {
					fmt.Printf("KNOWN-FINDING: property=%s %s [%s] e.g. %s\n", id, k.What, k.ID, prettyJSON(v.Pretty))
				}
				knownSeen[k.ID] = true
			} else {
				inconclusive(fmt.Sprintf("known finding %s did not reproduce natively: %s", k.ID, lastLines(out, 6)))
			}
		}
		// known findings identified by an input predicate in the harness: must still be there
		for _, k := range known {
			if k.Status != "open" || !st.KnownIDs[k.ID] || k.MatchMsg != "" || k.MatchWhere != "" {
				continue
			}
			cfg2 := mkcfg()
			cfg2.OnlyFinding = k.ID
			cfg2.MaxViolations = 1
			st2 := Explore(ld, fn, cfg2)
			hr.Queries += st2.Queries
			hr.SolverS += st2.SolverSeconds
			for l, n := range st2.Reached {
				reachedAll[l] += n
			}
			if len(st2.Violations) > 0 {
				v := st2.Violations[0]
				rp := writeReplay(vdir, id, h, v, params, 100+len(knownSeen))
				ok, out := nativeReplay(vdir, &spec, hdir, h, pkgPath, rp)
				replays++
				if ok {
					if !knownSeen[k.ID] {
						fmt.Printf("KNOWN-FINDING: property=%s %s [%s] e.g. %s (harness %s)\n", id, k.What, k.ID, prettyJSON(v.Pretty), h.Func)
					}
					knownSeen[k.ID] = true
				} else {
					inconclusive(fmt.Sprintf("known finding %s did not reproduce natively: %s", k.ID, lastLines(out, 6)))
				}
			} else {
				fmt.Printf("KNOWN-FINDING-GONE: property=%s [%s] not violated within the bound of harness %s (%s)\n", id, k.ID, h.Func, k.What)
			}
		}
		for _, l := range h.Reach {
			if reachedAll[l] == 0 {
				inconclusive("reach-witness never hit: " + l)
			}
		}
		hr.Reached = reachedAll
		// vacuity twin
		if tier == "thorough" && !h.NoTwin && verdict == "HOLDS-WITHIN-BOUND" {
			cfg3 := mkcfg()
			cfg3.Twin = true
			cfg3.MaxViolations = 1
			st3 := Explore(ld, fn, cfg3)
			if len(st3.Violations) > 0 {
				hr.Twin = "violated as required"
			} else {
				hr.Twin = "NOT violated"
				inconclusive("vacuity twin was not violated: the end of the harness is unreachable")
			}
		}
		// second-solver cross-check of the encoding (thorough tier, at the quick bounds)
		if tier == "thorough" && verdict == "HOLDS-WITHIN-BOUND" && os.Getenv("VERIF_NOCROSS") == "" {
			for _, other := range []string{"cvc5", "z3-new"} {
				cfg4 := mkcfg()
				cfg4.SolverKind = other
				cfg4.Params = map[string]int64{}
				for k, v := range h.Quick {
					cfg4.Params[k] = v
				}
				ref := mkcfg()
				ref.Params = cfg4.Params
				stO := Explore(ld, fn, cfg4)
				if len(stO.SolverErrors) > 0 || stO.SolverUnknown > 0 {
					hr.Cross = other + ": gave unknown/errors, not comparable"
					continue
				}
				stR := Explore(ld, fn, ref)
				if stO.Paths == stR.Paths && stO.Completed == stR.Completed && stO.Obligations == stR.Obligations && stO.Discharged == stR.Discharged && len(stO.Violations) == len(stR.Violations) {
					hr.Cross = fmt.Sprintf("%s agrees with z3 4.8.12 at the quick bounds (%d paths, %d obligations)", other, stO.Paths, stO.Obligations)
				} else {
					hr.Cross = fmt.Sprintf("%s DISAGREES with z3 4.8.12: paths %d vs %d, obligations %d vs %d", other, stO.Paths, stR.Paths, stO.Obligations, stR.Obligations)
					inconclusive("solver cross-check: " + hr.Cross)
				}
				break
			}
		}
		hr.Verdict = verdict
		hr.WallS = time.Since(th).Seconds()
		results = append(results, hr)
		fmt.Printf("%s %s: %s paths=%d completed=%d forks=%d obligations=%d/%d queries=%d solver=%.1fs wall=%.1fs\n",
			id, h.Func, verdict, st.Paths, st.Completed, st.Forks, st.Discharged, st.Obligations, hr.Queries, hr.SolverS, hr.WallS)
	}
	// vectors: the repository's own test inputs through engine and native code
	vectors := 0
	if tier == "thorough" || os.Getenv("VERIF_VECTORS") != "" {
		for _, h := range spec.Harnesses {
			if h.VectorsFunc == "" {
				continue
			}
			n, err := validateVectors(vdir, &spec, hdir, h, ld)
			if err != nil {
				problems = append(problems, "vector validation: "+err.Error())
				if exit == 0 {
					exit = 2
				}
			}
			vectors += n
		}
	}
	for _, p := range problems {
		fmt.Printf("INCONCLUSIVE property=%s: %s\n", id, p)
	}
	wall := time.Since(t0).Seconds()
	writeEvidence(vdir, id, tier, seed, results, map[string][]string{"funcs": murexFuncs(funcs), "stubs": sortedKeys(stubs), "known": sortedBoolKeys(knownSeen)}, &spec, violations, wall, problems, replays+vectors)
	_ = loadS
	if exit == 0 {
		fmt.Printf("OK property=%s tier=%s (%.1fs)\n", id, tier, wall)
	}
	return exit
}

func murexFuncs(m map[string]bool) []string {
	var ks []string
	for k := range m {
		if strings.Contains(k, "zzverif") {
			continue
		}
		ks = append(ks, strings.ReplaceAll(k, "github.com/lmorg/murex/", ""))
	}
	sort.Strings(ks)
	return ks
}

func prettyJSON(m map[string]string) string {
	b, _ := json.Marshal(m)
	return string(b)
}

func lastLines(s string, n int) string {
	ls := strings.Split(strings.TrimSpace(s), "\n")
	if len(ls) > n {
		ls = ls[len(ls)-n:]
	}
	return strings.Join(ls, " | ")
}

type replayFileT struct {
	Property string            `json:"property"`
	Harness  string            `json:"harness"`
	Kind     string            `json:"kind"`
	Msg      string            `json:"msg"`
	Where    string            `json:"where"`
	Model    map[string]uint64 `json:"model"`
	Params   map[string]int64  `json:"params"`
	Pretty   map[string]string `json:"pretty"`
	Inputs   []string          `json:"inputs_in_creation_order"`
	Trace    []Decision        `json:"decision_trace,omitempty"`
}

func writeReplay(vdir, id string, h HarnessSpec, v *Violation, params map[string]int64, n int) string {
	dir := filepath.Join(outDir(vdir), "replay", id)
	os.MkdirAll(dir, 0o755)
	rp := filepath.Join(dir, fmt.Sprintf("%s-%d.json", h.Func, n))
	rf := replayFileT{Property: id, Harness: h.Func, Kind: v.Kind, Msg: v.Msg, Where: v.Where, Model: v.Model, Params: params, Pretty: v.Pretty, Inputs: v.Inputs, Trace: v.Trace}
	b, _ := json.MarshalIndent(rf, "", " ")
	os.WriteFile(rp, b, 0o644)
	return rp
}

// nativeReplay compiles the harness with the real code (go test + overlay) and runs it on
// the model. It reports whether the violation reproduced.
func nativeReplay(vdir string, spec *Spec, hdir string, h HarnessSpec, pkgPath, replayPath string) (bool, string) {
	if h.NoReplay != "" {
		return false, "no native replay for this harness: " + h.NoReplay
	}
	fn := h.Func
	if h.ReplayFunc != "" {
		fn = h.ReplayFunc
	}
	if h.ReplayPackage != "" {
		pkgPath = h.ReplayPackage
	}
	if h.ReplayRuns > 1 {
		os.Setenv("VERIF_RUNS", strconv.Itoa(h.ReplayRuns))
		defer os.Unsetenv("VERIF_RUNS")
	}
	out, err := runNative(vdir, spec, hdir, pkgPath, fn, replayPath, "replay", 60)
	if err != nil && !strings.Contains(out, "VERIF-REPLAY:") && !strings.HasPrefix(out, "native harness does not compile") &&
		(strings.Contains(out, "\npanic: ") || strings.HasPrefix(out, "panic: ") || strings.Contains(out, "fatal error: ")) && strings.Contains(out, "goroutine ") {
		// the compiled harness died before it could report: a panic outside the harness goroutine
		// (every harness-side failure is recovered and reported through a marker) kills the process
		return true, "VERIF-REPLAY: REPRODUCED crash: the native process died of an uncaught panic\n" + out
	}
	return strings.Contains(out, "VERIF-REPLAY: REPRODUCED"), out
}

func runNative(vdir string, spec *Spec, hdir, pkgPath, fn, replayPath, mode string, timeoutS int) (string, error) {
	repo := repoDir()
	rel := strings.TrimPrefix(pkgPath, "github.com/lmorg/murex")
	rel = strings.TrimPrefix(rel, "/")
	pkgName := ""
	// package name from the harness file living in that directory
	for virt, real := range spec.Files {
		if filepath.Dir(virt) == rel || (rel == "" && filepath.Dir(virt) == ".") {
			b, _ := os.ReadFile(filepath.Join(hdir, real))
			for _, l := range strings.Split(string(b), "\n") {
				if strings.HasPrefix(l, "package ") {
					pkgName = strings.TrimSpace(strings.TrimPrefix(l, "package "))
					break
				}
			}
		}
	}
	if pkgName == "" {
		return "", fmt.Errorf("cannot determine package name for %s", pkgPath)
	}
	tmp, err := os.MkdirTemp("", "symgo-replay")
	if err != nil {
		return "", err
	}
	defer os.RemoveAll(tmp)
	testSrc := fmt.Sprintf(`package %s

import (
	"fmt"
	"os"
	"testing"
	"time"

	"github.com/lmorg/murex/zzverif/rt"
)

func TestVerifNative(t *testing.T) {
	mode := os.Getenv("VERIF_MODE")
	done := make(chan string, 1)
	runs := 1
	fmt.Sscan(os.Getenv("VERIF_RUNS"), &runs)
	go func() {
		defer func() {
			if r := recover(); r != nil {
				switch x := r.(type) {
				case rt.ReplayFailure:
					done <- "VERIF-REPLAY: REPRODUCED assertion: " + x.Msg
				case rt.AssumptionFailed:
					done <- "VERIF-REPLAY: NOT-REPRODUCED the model violates an assumption natively"
				case rt.HarnessError:
					done <- "VERIF-REPLAY: ERROR " + x.Msg
				default:
					done <- fmt.Sprint("VERIF-REPLAY: REPRODUCED panic: ", r)
				}
				return
			}
		}()
		for r := 0; r < runs || r == 0; r++ {
			rt.Reset()
			%s()
		}
		done <- "VERIF-REPLAY: NOT-REPRODUCED the harness returned normally"
	}()
	select {
	case s := <-done:
		fmt.Println(s)
	case <-time.After(time.Duration(10+2*runs) * time.Second):
		fmt.Println("VERIF-REPLAY: REPRODUCED hang: the harness did not return within its time limit")
	}
	_ = mode
}
`, pkgName, fn)
	testFile := filepath.Join(tmp, "zz_verif_native_test.go")
	os.WriteFile(testFile, []byte(testSrc), 0o644)
	repl := map[string]string{filepath.Join(repo, "zzverif/rt/rt.go"): filepath.Join(vdir, "rt", "rt.go")}
	for virt, real := range spec.Files {
		repl[filepath.Join(repo, virt)] = filepath.Join(hdir, real)
	}
	repl[filepath.Join(repo, rel, "zz_verif_native_test.go")] = testFile
	for k, rw := range spec.ReplayRewrite {
		src, err := os.ReadFile(filepath.Join(repo, rw.File))
		if err != nil {
			return "replay rewrite: " + err.Error(), err
		}
		if strings.Count(string(src), rw.From) < rw.Min || rw.Min < 1 {
			err := fmt.Errorf("replay rewrite of %s: %q occurs %d times, expected at least %d", rw.File, rw.From, strings.Count(string(src), rw.From), rw.Min)
			return err.Error(), err
		}
		out := filepath.Join(tmp, fmt.Sprintf("rewrite%d.go", k))
		os.WriteFile(out, []byte(strings.ReplaceAll(string(src), rw.From, rw.To)), 0o644)
		repl[filepath.Join(repo, rw.File)] = out
	}
	ovb, _ := json.Marshal(map[string]interface{}{"Replace": repl})
	ovf := filepath.Join(tmp, "overlay.json")
	os.WriteFile(ovf, ovb, 0o644)
	// compile the test binary, then run it (the package directory may exist only in the overlay)
	bin := filepath.Join(tmp, "native.test")
	var buf bytes.Buffer
	ccArgs := []string{"test", "-c", "-vet=off", "-overlay", ovf, "-o", bin}
	if spec.ReplayTags != "" {
		ccArgs = append(ccArgs, "-tags", spec.ReplayTags)
	}
	cc := exec.Command("go", append(ccArgs, "./"+rel)...)
	cc.Dir = repo
	cc.Env = append(os.Environ(), "GOFLAGS=-mod=mod", "GOPROXY=off")
	cc.Stdout = &buf
	cc.Stderr = &buf
	if err := cc.Run(); err != nil {
		return "native harness does not compile: " + buf.String(), err
	}
	cmd := exec.Command(bin, "-test.v", "-test.run", "^TestVerifNative$", "-test.timeout", fmt.Sprintf("%ds", timeoutS))
	cmd.Dir = repo
	if st, err := os.Stat(filepath.Join(repo, rel)); err == nil && st.IsDir() {
		cmd.Dir = filepath.Join(repo, rel)
	}
	cmd.Env = append(os.Environ(), "VERIF_MODEL="+replayPath, "VERIF_MODE="+mode, "MUREX_TEST_NO_HTTP=true", "HOME="+tmp)
	cmd.Stdout = &buf
	cmd.Stderr = &buf
	err = cmd.Run()
	return buf.String(), err
}

func replayFile(vdir, id, path string) int {
	if abs, err := filepath.Abs(path); err == nil {
		path = abs
	}
	var rf replayFileT
	b, err := os.ReadFile(path)
	if err != nil {
		fmt.Fprintln(os.Stderr, err)
		return 2
	}
	json.Unmarshal(b, &rf)
	hdir := filepath.Join(vdir, "harness", id)
	var spec Spec
	sb, _ := os.ReadFile(filepath.Join(hdir, "spec.json"))
	json.Unmarshal(sb, &spec)
	for _, h := range spec.Harnesses {
		if h.Func == rf.Harness {
			pkgPath := spec.Package
			if h.Package != "" {
				pkgPath = h.Package
			}
			ok, out := nativeReplay(vdir, &spec, hdir, h, pkgPath, path)
			fmt.Println(out)
			if ok {
				fmt.Printf("VIOLATION property=%s replay=%s\n", id, path)
				return 1
			}
			return 0
		}
	}
	fmt.Fprintln(os.Stderr, "harness not found:", rf.Harness)
	return 2
}

// validateVectors pushes the repository's own test inputs through the engine (concrete
// mode) and through the native build and compares the outputs line by line.
func validateVectors(vdir string, spec *Spec, hdir string, h HarnessSpec, ld *Loaded) (int, error) {
	pkgPath := spec.Package
	if h.Package != "" {
		pkgPath = h.Package
	}
	p := ld.byPath[pkgPath]
	fn := p.Func(h.VectorsFunc)
	if fn == nil {
		return 0, fmt.Errorf("vectors function %s not found", h.VectorsFunc)
	}
	cfg := defaultConfig()
	cfg.CollectNotes = true
	st := Explore(ld, fn, cfg)
	if st.Completed != 1 || len(st.Unsupported) > 0 || len(st.EngineErrors) > 0 {
		return 0, fmt.Errorf("%s did not run cleanly in the engine: %v %v", h.VectorsFunc, st.Unsupported, st.EngineErrors)
	}
	out, _ := runNative(vdir, spec, hdir, pkgPath, h.VectorsFunc, "", "vectors", 120)
	var native []string
	for _, l := range strings.Split(out, "\n") {
		if strings.HasPrefix(l, "VERIF-VECTOR: ") {
			native = append(native, strings.TrimPrefix(l, "VERIF-VECTOR: "))
		}
	}
	eng := st.Notes
	if len(native) == 0 {
		return 0, fmt.Errorf("%s produced no vectors natively: %s", h.VectorsFunc, lastLines(out, 5))
	}
	if len(native) != len(eng) {
		return 0, fmt.Errorf("%s: %d vectors natively, %d in the engine", h.VectorsFunc, len(native), len(eng))
	}
	for k := range native {
		if native[k] != eng[k] {
			return k, fmt.Errorf("%s: vector %d differs: native %q engine %q", h.VectorsFunc, k, native[k], eng[k])
		}
	}
	return len(native), nil
}

func writeEvidence(vdir, id, tier string, seed int, results []*harnessResult, lists map[string][]string, spec *Spec, violations int, wall float64, problems []string, validated int) {
	var states, transitions, obligations, discharged, queries, nontrivial int64
	var solverS float64
	var samples []interface{}
	exhaustive := len(problems) == 0
	bounds := []string{}
	for _, r := range results {
		states += r.Completed
		transitions += r.Decisions
		obligations += r.Obligations
		discharged += r.Discharged
		queries += r.Queries
		solverS += r.SolverS
		nontrivial += r.Nontrivial
		bounds = append(bounds, r.Func+": "+r.Bounds+" "+fmt.Sprint(r.Params))
		for k, s := range r.Samples {
			if k >= 3 {
				break
			}
			samples = append(samples, map[string]interface{}{"harness": r.Func, "inputs_of_one_explored_path": s})
		}
	}
	if len(samples) == 0 {
		samples = append(samples, "no path completed")
	}
	cov := map[string]interface{}{
		"states":                        states,
		"transitions":                   transitions,
		"traces_validated_against_impl": validated,
		"samples":                       samples,
		"obligations":                   obligations,
		"discharged":                    discharged,
		"queries":                       queries,
		"solver_s":                      solverS,
		"distinct_nontrivial":           nontrivial,
		"evaluations":                   states,
		"rule":                          "a state is one completed symbolic path (a class of inputs with the same branch outcomes in the real code); non-trivial = its path condition constrains at least one input; transitions = solver-decided branch/value decisions",
		"exhaustive":                    exhaustive,
		"bounds":                        bounds,
		"harnesses":                     results,
		"problems":                      problems,
		"engine":                        "symgo: symbolic go/ssa interpreter regenerated from /repo on this run; solver z3 4.8.12 (-in, push/pop)",
	}
	if lists != nil {
		cov["functions_encoded"] = lists["funcs"]
		cov["stubs"] = lists["stubs"]
		if k, ok := lists["known"]; ok {
			cov["known_findings_observed"] = k
		}
	}
	if spec != nil {
		cov["outside_the_claim"] = spec.Outside
		cov["internal_identifiers"] = spec.Internal
	}
	ev := map[string]interface{}{
		"property_id": id,
		"tier":        tier,
		"seed":        seed,
		"level":       "model_checking",
		"coverage":    cov,
		"wall_s":      wall,
		"violations":  violations,
	}
	if spec != nil {
		ev["assumptions"] = append([]string{}, spec.Assumptions...)
	} else {
		ev["assumptions"] = []string{}
	}
	os.MkdirAll(filepath.Join(outDir(vdir), "evidence"), 0o755)
	b, _ := json.MarshalIndent(ev, "", " ")
	os.WriteFile(filepath.Join(outDir(vdir), "evidence", id+".json"), b, 0o644)
}

// outDir: where evidence and replay files go; VERIF_OUT redirects them (development only: trial
// runs against a scratch copy of the repository must not touch the evidence of /repo).
func outDir(vdir string) string {
	if d := os.Getenv("VERIF_OUT"); d != "" {
		return d
	}
	return vdir
}

func cmdSelftest(args []string) int { return runSelftest() }

func sortedBoolKeys(m map[string]bool) []string {
	res := []string{}
	for k, v := range m {
		if v {
			res = append(res, k)
		}
	}
	sort.Strings(res)
	return res
}

// harnessListed: the harness field of a known finding names one harness or several (comma separated).
func harnessListed(list, fn string) bool {
	for _, h := range strings.Split(list, ",") {
		if strings.TrimSpace(h) == fn {
			return true
		}
	}
	return false
}
