package main

// Path exploration by re-execution: a path is identified by the list of outcomes of
// its symbolic decisions. The worker re-runs the harness from the initial state,
// replaying a forced prefix (assertions are sent to the solver without queries) and
// asking the solver at every decision beyond the prefix. When both outcomes are
// satisfiable the sibling prefix is pushed on the shared work-list.

import (
	"fmt"
	"go/token"
	"math"
	"os"
	"sort"
	"strings"
	"sync"
	"time"

	"golang.org/x/tools/go/ssa"
)

type Decision struct {
	Taken   bool
	Val     uint64
	HasVal  bool
	Implied bool // only one side was satisfiable: nothing is asserted on replay
}

type pathState struct {
	forced    []Decision
	trace     []Decision
	asserted  map[int]bool // ids of Bool terms known true on this path
	nforks    int
	reached   map[string]bool
	notes     []string
	recovered []string
	polls     int
	symbolic  bool // path condition mentions an input
	inputs    []*Term
	approx    []string
	violation *Violation
	ev        *evalCtx // model of the current path condition (nil: none at hand)
	evFetches int
}

var noModelOpt = os.Getenv("VERIF_NOMODEL") != ""

// ensureModel returns an evaluator for a model of the current path condition, fetching one
// from the solver when none is at hand (at most a few times per path).
func (i *Interp) ensureModel() *evalCtx {
	p := i.path
	if noModelOpt {
		return nil
	}
	if len(p.trace) < len(p.forced) {
		return nil // still replaying
	}
	if p.ev != nil {
		return p.ev
	}
	if p.evFetches >= 6 {
		return nil
	}
	p.evFetches++
	if i.solver.Check() != rSat {
		return nil
	}
	m, ok := i.solver.Values(i.tt.vars)
	if !ok {
		return nil
	}
	p.ev = newEvalCtx(m)
	return p.ev
}

type Violation struct {
	Msg     string            `json:"msg"`
	Where   string            `json:"where,omitempty"`
	Model   map[string]uint64 `json:"model"`
	Inputs  []string          `json:"inputs"`
	Harness string            `json:"harness"`
	Kind    string            `json:"kind"` // assert | panic | hang | deadlock
	Pretty  map[string]string `json:"pretty,omitempty"`
	Tags    []string          `json:"tags,omitempty"`
	Trace   []Decision        `json:"decision_trace,omitempty"` // branch / value / scheduling decisions of the path
}

type RunConfig struct {
	MaxSteps      int64
	MaxDecisions  int
	MaxCallDepth  int
	MaxThreads    int
	MaxPolls      int
	MaxViolations int
	MaxPaths      int
	Workers       int
	SolverKind    string
	SolverTimeout time.Duration
	Trace         bool
	Verbose       bool
	Params        map[string]int64
	Twin          bool
	HangIsFinding bool // step/decision bound hit is reported as a violation of kind "hang"
	Deadline      time.Time
	SMTLog        string
	Seed          int
	Known         map[string]bool // ids of open known findings (excluded by assumption)
	OnlyFinding   string          // explore only inputs matching this known finding
	CollectNotes  bool
	KnownSigs     []KnownSig
	InitialPrefix []Decision // re-execute exactly this path first (schedule replay)
}

type Stats struct {
	Paths         int64
	Completed     int64
	AssumeEnds    int64
	Forks         int64
	Decisions     int64
	Obligations   int64
	Discharged    int64
	Queries       int64
	SolverSeconds float64
	Unsupported   map[string]int
	BoundHits     map[string]int
	SolverUnknown int
	SolverErrors  []string
	EngineErrors  []string
	Reached       map[string]int
	Funcs         map[string]bool
	Stubs         map[string]bool
	Violations    []*Violation
	Samples       []map[string]string
	Nontrivial    int64
	Approx        map[string]int
	Deadlocks     int
	TimedOut      bool
	MaxTrace      int
	Notes         []string
	KnownHits     map[string][]*Violation
	KnownCount    int
	KnownIDs      map[string]bool // open rt.KnownFinding ids this harness mentions
}

// KnownSig identifies a known finding by the call site and message of the failure.
type KnownSig struct {
	ID, MatchMsg, MatchWhere, MatchKind string
}

func (c *RunConfig) matchKnownSig(v *Violation) string {
	for _, k := range c.KnownSigs {
		if k.MatchKind != "" && k.MatchKind != v.Kind {
			continue
		}
		if k.MatchMsg != "" && !strings.Contains(v.Msg, k.MatchMsg) {
			continue
		}
		if k.MatchWhere != "" && !strings.Contains(v.Where, k.MatchWhere) {
			continue
		}
		return k.ID
	}
	return ""
}

type explorer struct {
	mu      sync.Mutex
	cond    *sync.Cond
	work    []workItem
	active  int
	stats   *Stats
	cfg     *RunConfig
	stopped bool
}

func newStats() *Stats {
	return &Stats{Unsupported: map[string]int{}, BoundHits: map[string]int{}, Reached: map[string]int{}, Funcs: map[string]bool{}, Stubs: map[string]bool{}, Approx: map[string]int{}}
}

// workItem: a decision prefix to replay, optionally with a model of its path condition.
type workItem struct {
	prefix []Decision
	model  map[string]uint64
}

func (e *explorer) push(p workItem) {
	e.mu.Lock()
	e.work = append(e.work, p)
	e.mu.Unlock()
	e.cond.Signal()
}

func (e *explorer) pop() (workItem, bool) {
	e.mu.Lock()
	defer e.mu.Unlock()
	for {
		if e.stopped {
			return workItem{}, false
		}
		if n := len(e.work); n > 0 {
			p := e.work[n-1]
			e.work = e.work[:n-1]
			e.active++
			return p, true
		}
		if e.active == 0 {
			e.cond.Broadcast()
			return workItem{}, false
		}
		e.cond.Wait()
	}
}

func (e *explorer) done() {
	e.mu.Lock()
	e.active--
	if e.active == 0 && len(e.work) == 0 {
		e.cond.Broadcast()
	}
	e.mu.Unlock()
}

// ---- decisions

func (i *Interp) pushDecision(d Decision) {
	p := i.path
	p.trace = append(p.trace, d)
	if len(p.trace) > i.cfg.MaxDecisions {
		panic(pathAbort{kind: "decisions", msg: fmt.Sprintf("more than %d symbolic decisions on one path", i.cfg.MaxDecisions)})
	}
}

func (i *Interp) assertPC(c *Term) {
	i.solver.Assert(c)
	p := i.path
	p.asserted[c.id] = true
	if c.op == "and" {
		// remember conjuncts too
		for _, a := range c.args {
			p.asserted[a.id] = true
		}
	}
	p.symbolic = true
}

func (i *Interp) known(c *Term) (bool, bool) {
	p := i.path
	if p.asserted[c.id] {
		return true, true
	}
	n := i.tt.Not(c)
	if p.asserted[n.id] {
		return false, true
	}
	return false, false
}

func (i *Interp) solverFail(what string) {
	panic(pathAbort{kind: "solver", msg: what})
}

// branch decides a symbolic condition, forking when both outcomes are feasible.
func (i *Interp) branch(c *Term) bool {
	if c.isConst() {
		return c.cval == 1
	}
	if i.path == nil {
		panic("symbolic branch outside a path")
	}
	if v, ok := i.known(c); ok {
		return v
	}
	p := i.path
	pos := len(p.trace)
	if pos < len(p.forced) {
		d := p.forced[pos]
		i.pushDecision(d)
		lit := c
		if !d.Taken {
			lit = i.tt.Not(c)
		}
		if d.Implied {
			p.asserted[lit.id] = true
		} else {
			i.assertPC(lit)
		}
		return d.Taken
	}
	i.checkDeadline()
	if ev := i.ensureModel(); ev != nil {
		if v, ok := ev.eval(c); ok {
			// the model witnesses one side; only the other side needs the solver
			lit, other := c, i.tt.Not(c)
			if v == 0 {
				lit, other = other, c
			}
			r := i.solver.Check(other)
			if r == rUnknown {
				i.solverFail("unknown on branch condition")
			}
			if r == rUnsat {
				i.pushDecision(Decision{Taken: v == 1, Implied: true})
				p.asserted[lit.id] = true
				return v == 1
			}
			sibModel, _ := i.solver.Values(i.tt.vars)
			sib := make([]Decision, len(p.trace)+1)
			copy(sib, p.trace)
			sib[len(p.trace)] = Decision{Taken: v != 1}
			i.exp.push(workItem{sib, sibModel})
			p.nforks++
			i.pushDecision(Decision{Taken: v == 1})
			i.assertPC(lit)
			return v == 1
		}
		p.ev = nil // cannot evaluate: the side taken below may not agree with the model
	}
	r1 := i.solver.Check(c)
	if r1 == rUnknown {
		i.solverFail("unknown on branch condition")
	}
	if r1 == rUnsat {
		i.pushDecision(Decision{Taken: false, Implied: true})
		p.asserted[i.tt.Not(c).id] = true
		return false
	}
	nc := i.tt.Not(c)
	r2 := i.solver.Check(nc)
	if r2 == rUnknown {
		i.solverFail("unknown on negated branch condition")
	}
	if r2 == rUnsat {
		i.pushDecision(Decision{Taken: true, Implied: true})
		p.asserted[c.id] = true
		return true
	}
	// fork
	sib := make([]Decision, len(p.trace)+1)
	copy(sib, p.trace)
	sib[len(p.trace)] = Decision{Taken: false}
	i.exp.push(workItem{prefix: sib})
	p.nforks++
	i.pushDecision(Decision{Taken: true})
	i.assertPC(c)
	return true
}

// choose concretises a bit-vector term by solver-driven enumeration.
func (i *Interp) choose(t *Term) uint64 {
	if t.isConst() {
		return t.cval
	}
	p := i.path
	w := t.sort.Width()
	for {
		pos := len(p.trace)
		if pos < len(p.forced) {
			d := p.forced[pos]
			if !d.HasVal {
				panic(engineError{r: "replay mismatch: expected a value decision", where: ""})
			}
			i.pushDecision(d)
			eq := i.tt.Eq(t, i.tt.BV(w, d.Val))
			if d.Taken {
				if d.Implied {
					p.asserted[eq.id] = true
				} else {
					i.assertPC(eq)
				}
				return d.Val
			}
			i.assertPC(i.tt.Not(eq))
			continue
		}
		i.checkDeadline()
		var v uint64
		fromModel := false
		if ev := i.ensureModel(); ev != nil {
			if x, ok := ev.eval(t); ok {
				v, fromModel = x, true
			}
		}
		if !fromModel {
			p.ev = nil
			r := i.solver.Check()
			if r == rUnknown {
				i.solverFail("unknown while enumerating values")
			}
			if r == rUnsat {
				// cannot happen when the invariant "pc is satisfiable" holds
				panic(pathAbort{kind: "assume", msg: "path condition became unsatisfiable during enumeration"})
			}
			vals, ok := i.solver.Values([]*Term{t})
			if !ok {
				i.solverFail("get-value failed")
			}
			found := false
			for _, x := range vals {
				v = x
				found = true
			}
			if !found {
				i.solverFail("get-value returned nothing")
			}
		}
		v = maskW(v, w)
		eq := i.tt.Eq(t, i.tt.BV(w, v))
		r2 := i.solver.Check(i.tt.Not(eq))
		if r2 == rUnknown {
			i.solverFail("unknown while enumerating values")
		}
		if r2 == rUnsat {
			i.pushDecision(Decision{Taken: true, Val: v, HasVal: true, Implied: true})
			p.asserted[eq.id] = true
			return v
		}
		sib := make([]Decision, len(p.trace)+1)
		copy(sib, p.trace)
		sib[len(p.trace)] = Decision{Taken: false, Val: v, HasVal: true}
		var sibModel map[string]uint64
		if !noModelOpt {
			sibModel, _ = i.solver.Values(i.tt.vars) // model of pc ∧ t≠v from the query above
		}
		i.exp.push(workItem{prefix: sib, model: sibModel})
		p.nforks++
		i.pushDecision(Decision{Taken: true, Val: v, HasVal: true})
		i.assertPC(eq)
		return v
	}
}

// chooseIndex forks over k alternatives that do not depend on inputs (schedules).
func (i *Interp) chooseIndex(k int) int {
	if k <= 1 {
		return 0
	}
	p := i.path
	for alt := 0; alt < k-1; alt++ {
		pos := len(p.trace)
		if pos < len(p.forced) {
			d := p.forced[pos]
			i.pushDecision(d)
			if d.Taken {
				return alt
			}
			continue
		}
		sib := make([]Decision, len(p.trace)+1)
		copy(sib, p.trace)
		sib[len(p.trace)] = Decision{Taken: false, Implied: true}
		i.exp.push(workItem{prefix: sib})
		p.nforks++
		i.pushDecision(Decision{Taken: true, Implied: true})
		return alt
	}
	return k - 1
}

func (i *Interp) checkDeadline() {
	if !i.cfg.Deadline.IsZero() && time.Now().After(i.cfg.Deadline) {
		i.exp.mu.Lock()
		i.exp.stats.TimedOut = true
		i.exp.stopped = true
		i.exp.mu.Unlock()
		i.exp.cond.Broadcast()
		panic(pathAbort{kind: "timeout", msg: "deadline exceeded"})
	}
}

// assume restricts the path.
func (i *Interp) assume(v value) {
	switch c := v.(type) {
	case bool:
		if !c {
			panic(pathAbort{kind: "assume"})
		}
	case *Term:
		i.assumeTerm(c)
	}
}

// assumeTerm adds c to the path condition without exploring the other side.
func (i *Interp) assumeTerm(c *Term) {
	if c.isConst() {
		if c.cval == 0 {
			panic(pathAbort{kind: "assume"})
		}
		return
	}
	if v, ok := i.known(c); ok {
		if !v {
			panic(pathAbort{kind: "assume"})
		}
		return
	}
	p := i.path
	pos := len(p.trace)
	if pos < len(p.forced) {
		d := p.forced[pos]
		i.pushDecision(d)
		if d.Implied {
			p.asserted[c.id] = true
		} else {
			i.assertPC(c)
		}
		return
	}
	i.checkDeadline()
	if ev := i.ensureModel(); ev != nil {
		if v, ok := ev.eval(c); ok && v == 1 {
			// the model at hand satisfies the assumption: no query needed
			i.pushDecision(Decision{Taken: true})
			i.assertPC(c)
			return
		}
	}
	r := i.solver.Check(c)
	if r == rUnknown {
		i.solverFail("unknown on assumption")
	}
	if r == rUnsat {
		panic(pathAbort{kind: "assume"})
	}
	p.ev = nil
	if !noModelOpt {
		if m, ok := i.solver.Values(i.tt.vars); ok {
			p.ev = newEvalCtx(m) // model of pc ∧ c
		}
	}
	i.pushDecision(Decision{Taken: true})
	i.assertPC(c)
}

func (i *Interp) model() (map[string]uint64, bool) {
	r := i.solver.Check()
	if r != rSat {
		return nil, false
	}
	return i.solver.Values(i.tt.vars)
}

func (i *Interp) recordViolation(msg, where string) {
	p := i.path
	if p == nil || p.violation != nil {
		return
	}
	v := &Violation{Msg: msg, Where: where, Kind: "assert"}
	v.Trace = append([]Decision(nil), p.trace...)
	m, ok := i.model()
	if !ok {
		v.Msg += " (model extraction failed)"
	}
	v.Model = m
	for _, t := range i.tt.vars {
		v.Inputs = append(v.Inputs, t.name)
	}
	p.violation = v
}

// assertProp checks a property obligation.
func (i *Interp) assertProp(v value, msg string, fr *frame) {
	st := i.exp.stats
	i.exp.mu.Lock()
	st.Obligations++
	i.exp.mu.Unlock()
	if i.cfg.Twin {
		return
	}
	switch c := v.(type) {
	case bool:
		if c {
			i.exp.mu.Lock()
			st.Discharged++
			i.exp.mu.Unlock()
			return
		}
		i.recordViolation(msg, i.where(fr))
		panic(pathAbort{kind: "violation", msg: msg})
	case *Term:
		if val, ok := i.known(c); ok && val {
			i.exp.mu.Lock()
			st.Discharged++
			i.exp.mu.Unlock()
			return
		}
		i.checkDeadline()
		nc := i.tt.Not(c)
		r := i.solver.Check(nc)
		switch r {
		case rUnsat:
			i.exp.mu.Lock()
			st.Discharged++
			i.exp.mu.Unlock()
			i.path.asserted[c.id] = true
			return
		case rUnknown:
			i.solverFail("unknown on assertion: " + msg)
		}
		// violated: extend the path condition with the negation and extract the model
		i.solver.Push()
		i.solver.Assert(nc)
		i.recordViolation(msg, i.where(fr))
		i.solver.Pop()
		panic(pathAbort{kind: "violation", msg: msg})
	}
}

func (i *Interp) where(fr *frame) string {
	if fr == nil {
		return ""
	}
	f := fr
	if f.caller != nil {
		f = f.caller
	}
	if f.curInstr != nil {
		return i.prog.Fset.Position(f.curInstr.Pos()).String()
	}
	return ""
}

// ---- running paths

func (i *Interp) runPath(harness *ssa.Function, item workItem) {
	st := i.exp.stats
	forced := item.prefix
	i.path = &pathState{forced: forced, asserted: map[int]bool{}, reached: map[string]bool{}}
	if item.model != nil && !noModelOpt {
		i.path.ev = newEvalCtx(item.model)
	}
	i.steps = 0
	i.allocCells = 0
	i.stubs = nil
	i.symSched = false
	i.preemptBudget = 0
	i.lateBudget, i.lateVictim, i.lateLeft = 0, nil, 0
	i.fpBitsSeq = 0
	i.memfs, i.fsFiles, i.fsHandles = false, map[string]*memFile{}, map[*value]*memHandle{}
	i.switches = 0
	i.pendingAbort = nil
	i.mutexes = map[*value]*mstate{}
	i.nclock = 0
	i.clock = nil
	i.inputSeq = map[string]int{}
	main := &thread{id: 0, wake: make(chan struct{}, 1), exited: make(chan struct{}), name: "main"}
	i.threads = []*thread{main}
	i.cur = main
	i.logging = true
	i.solver.Push()

	var abort *pathAbort
	var tpanic *targetPanic
	var engErr string
	func() {
		defer func() {
			if r := recover(); r != nil {
				switch r := r.(type) {
				case pathAbort:
					abort = &r
				case targetPanic:
					tpanic = &r
				case engineError:
					engErr = fmt.Sprint(r.r) + "\n" + r.where
				default:
					engErr = fmt.Sprint(r)
				}
			}
		}()
		i.callSSA(nil, token.NoPos, harness, nil, nil)
		if i.cfg.Twin {
			// vacuity twin: the end of the harness must be reachable
			i.cfg.Twin = false
			i.recordViolation("twin: harness end reached", "")
			i.cfg.Twin = true
			panic(pathAbort{kind: "violation", msg: "twin"})
		}
	}()
	i.killThreads()
	if tpanic != nil {
		// uncaught panic of the target in the harness thread
		i.recordViolation("uncaught panic: "+tpanic.String(), tpanic.where)
		if i.path.violation != nil {
			i.path.violation.Kind = "panic"
		}
		abort = &pathAbort{kind: "violation", msg: tpanic.String()}
	}
	if abort != nil && (abort.kind == "steps" || abort.kind == "decisions" || abort.kind == "deadlock") && i.cfg.HangIsFinding {
		i.recordViolation("non-termination / hang: "+abort.msg, "")
		if i.path.violation != nil {
			i.path.violation.Kind = "hang"
		}
		abort = &pathAbort{kind: "violation", msg: abort.msg}
	}

	// sample of the inputs of this path
	var sample map[string]string
	i.exp.mu.Lock()
	needSample := len(st.Samples) < 8 && abort == nil && engErr == ""
	i.exp.mu.Unlock()
	if needSample && len(i.tt.vars) > 0 {
		if m, ok := i.model(); ok {
			sample = prettyModel(i.tt.vars, m)
			for _, n := range i.path.notes {
				sample["note:"+n] = ""
			}
		}
	}

	i.solver.Pop()
	i.logging = false
	i.rollback()

	i.exp.mu.Lock()
	defer i.exp.mu.Unlock()
	st.Paths++
	st.Decisions += int64(len(i.path.trace))
	st.Forks += int64(i.path.nforks)
	if len(i.path.trace) > st.MaxTrace {
		st.MaxTrace = len(i.path.trace)
	}
	for _, a := range i.path.approx {
		st.Approx[a]++
	}
	if engErr != "" {
		if len(st.EngineErrors) < 5 {
			st.EngineErrors = append(st.EngineErrors, engErr)
		}
		return
	}
	if abort == nil {
		st.Completed++
		if i.path.symbolic {
			st.Nontrivial++
		}
		for l := range i.path.reached {
			st.Reached[l]++
		}
		if sample != nil {
			st.Samples = append(st.Samples, sample)
		}
		if i.cfg.CollectNotes {
			st.Notes = append(st.Notes, i.path.notes...)
		}
		return
	}
	switch abort.kind {
	case "assume":
		st.AssumeEnds++
	case "violation":
		for l := range i.path.reached {
			st.Reached[l]++
		}
		if v := i.path.violation; v != nil {
			v.Harness = harness.Name()
			v.Pretty = prettyModel(i.tt.vars, v.Model)
			v.Tags = append(v.Tags, i.path.notes...)
			if id := i.cfg.matchKnownSig(v); id != "" {
				// a listed known finding (identified by its failing call site): tallied, one
				// example kept for the native replay, exploration continues
				if st.KnownHits == nil {
					st.KnownHits = map[string][]*Violation{}
				}
				if len(st.KnownHits[id]) < 1 {
					st.KnownHits[id] = append(st.KnownHits[id], v)
				}
				st.KnownCount++
				return
			}
			if len(st.Violations) < i.cfg.MaxViolations {
				st.Violations = append(st.Violations, v)
			}
			if len(st.Violations) >= i.cfg.MaxViolations {
				i.exp.stopped = true
				i.exp.cond.Broadcast()
			}
		}
	case "unsupported":
		st.Unsupported[abort.msg]++
	case "steps", "decisions":
		st.BoundHits[abort.kind+": "+abort.msg]++
	case "deadlock":
		st.Deadlocks++
		st.BoundHits["deadlock: "+abort.msg]++
	case "solver":
		st.SolverUnknown++
		st.Unsupported["solver: "+abort.msg]++
	case "timeout":
		st.TimedOut = true
	case "engine":
		if len(st.EngineErrors) < 5 {
			st.EngineErrors = append(st.EngineErrors, abort.msg)
		}
	default:
		st.Unsupported[abort.kind+": "+abort.msg]++
	}
}

func prettyModel(vars []*Term, m map[string]uint64) map[string]string {
	res := map[string]string{}
	for _, t := range vars {
		v, ok := m[t.name]
		if !ok {
			continue
		}
		switch t.sort {
		case SBool:
			res[t.name] = fmt.Sprint(v == 1)
		case SFP64:
			res[t.name] = fmt.Sprint(math.Float64frombits(v))
		case SFP32:
			res[t.name] = fmt.Sprint(math.Float32frombits(uint32(v)))
		case SBV8:
			if v >= 32 && v < 127 {
				res[t.name] = fmt.Sprintf("%d %q", v, string(rune(v)))
			} else {
				res[t.name] = fmt.Sprintf("%d", v)
			}
		case SBV32:
			if v >= 32 && v < 127 {
				res[t.name] = fmt.Sprintf("%d %q", int32(v), string(rune(v)))
			} else {
				res[t.name] = fmt.Sprintf("%d", int32(v))
			}
		default:
			res[t.name] = fmt.Sprintf("%d", int64(v))
		}
	}
	return res
}

// Explore runs the harness function exhaustively within the configured bounds.
func Explore(ld *Loaded, harness *ssa.Function, cfg *RunConfig) *Stats {
	st := newStats()
	e := &explorer{stats: st, cfg: cfg}
	e.cond = sync.NewCond(&e.mu)
	e.work = []workItem{{prefix: cfg.InitialPrefix}}
	var wg sync.WaitGroup
	nw := cfg.Workers
	if nw < 1 {
		nw = 1
	}
	for w := 0; w < nw; w++ {
		wg.Add(1)
		go func(w int) {
			defer wg.Done()
			var logw *os.File
			if cfg.SMTLog != "" && w == 0 {
				logw, _ = os.Create(cfg.SMTLog)
				defer logw.Close()
			}
			var s *Solver
			var err error
			if logw != nil {
				s, err = newSolver(cfg.SolverKind, cfg.SolverTimeout, logw)
			} else {
				s, err = newSolver(cfg.SolverKind, cfg.SolverTimeout, nil)
			}
			if err != nil {
				e.mu.Lock()
				st.SolverErrors = append(st.SolverErrors, err.Error())
				e.mu.Unlock()
				return
			}
			defer s.Close()
			in := newInterp(ld, cfg, s, e)
			for {
				p, ok := e.pop()
				if !ok {
					break
				}
				in.runPath(harness, p)
				e.done()
				if cfg.MaxPaths > 0 {
					e.mu.Lock()
					if st.Paths >= int64(cfg.MaxPaths) {
						e.stopped = true
						st.BoundHits["max-paths"]++
						e.cond.Broadcast()
					}
					e.mu.Unlock()
				}
			}
			e.mu.Lock()
			st.Queries += int64(s.Queries)
			st.SolverSeconds += s.Time.Seconds()
			st.SolverUnknown += 0
			for _, er := range s.Errors {
				if len(st.SolverErrors) < 10 {
					st.SolverErrors = append(st.SolverErrors, er)
				}
			}
			for f := range in.funcsSeen {
				st.Funcs[f] = true
			}
			for f := range in.stubsUsed {
				st.Stubs[f] = true
			}
			e.mu.Unlock()
		}(w)
	}
	wg.Wait()
	if len(e.work) > 0 && !st.TimedOut && len(st.Violations) < cfg.MaxViolations {
		st.BoundHits["work-list not drained"] += len(e.work)
	}
	return st
}

func newInterp(ld *Loaded, cfg *RunConfig, s *Solver, e *explorer) *Interp {
	in := &Interp{
		prog:      ld.prog,
		globals:   map[*ssa.Global]*value{},
		pkgState:  map[*ssa.Package]int{},
		fnInfos:   map[*ssa.Function]*fnInfo{},
		tt:        newTermTable(),
		solver:    s,
		cfg:       cfg,
		exp:       e,
		ld:        ld,
		funcsSeen: map[string]bool{},
		stubsUsed: map[string]bool{},
	}
	in.runtimeErrorType = ld.runtimeErrorType
	in.errorStringPtr = ld.errorStringPtr
	in.wrapErrorPtr = ld.wrapErrorPtr
	main := &thread{id: 0, wake: make(chan struct{}, 1), exited: make(chan struct{}), name: "main"}
	in.threads = []*thread{main}
	in.cur = main
	in.mutexes = map[*value]*mstate{}
	// presets of globals of packages whose initialisers are not run
	if osp := ld.byPath["os"]; osp != nil {
		if g, ok := osp.Members["Args"].(*ssa.Global); ok {
			cell := value([]value{"murex"})
			in.globals[g] = &cell
		}
	}
	return in
}

func sortedKeys(m map[string]bool) []string {
	var ks []string
	for k := range m {
		ks = append(ks, k)
	}
	sort.Strings(ks)
	return ks
}

func shortFuncs(m map[string]bool, prefix string) []string {
	var ks []string
	for k := range m {
		if strings.Contains(k, prefix) {
			ks = append(ks, k)
		}
	}
	sort.Strings(ks)
	return ks
}
