package main

// Cooperative threads: every interpreted goroutine is a real goroutine, but only the
// holder of the baton (Interp.cur) runs. Control changes hands only at scheduling
// points (mutex acquisition, channel operations, Sleep/Gosched, WaitGroup.Wait, thread
// exit). In symbolic-schedule mode the next thread at every scheduling point is a
// solver-forked decision; otherwise a thread runs until it blocks (round-robin).

import (
	"fmt"
	"go/token"
	"go/types"

	"golang.org/x/tools/go/ssa"
)

type thread struct {
	id      int
	wake    chan struct{}
	exited  chan struct{}
	done    bool
	killed  bool
	blocked func() bool // non-nil: thread may run only when this returns true
	name    string
	polls   int
	where   string
	// the symbolic-schedule flag (rt.SymSched) belongs to the goroutine that set it: it is saved
	// when the goroutine is descheduled, restored when it runs again, inherited by `go`
	symSched bool
}

type channel struct {
	cap    int
	buf    []value
	closed bool
	elem   types.Type
	recvW  int // receivers currently blocked (for unbuffered hand-off / select)
	taken  int // number of values ever taken (hand-off acknowledgement)
	sent   int
}

type mstate struct {
	locked  bool
	owner   *thread
	readers int
}

func (i *Interp) newThread(name string) *thread {
	t := &thread{id: len(i.threads), wake: make(chan struct{}, 1), exited: make(chan struct{}), name: name}
	i.threads = append(i.threads, t)
	return t
}

func (i *Interp) spawn(fr *frame, pos token.Pos, fn value, args []value) {
	if i.initDepth > 0 {
		// goroutines started by package initialisers (janitors, tickers) are not modelled
		return
	}
	name := "go"
	switch f := fn.(type) {
	case *ssa.Function:
		name = f.String()
	case *closure:
		name = f.Fn.String()
	}
	live := 0
	for _, t := range i.threads {
		if !t.done {
			live++
		}
	}
	if live > i.cfg.MaxThreads {
		i.unsupported("more than %d live goroutines", i.cfg.MaxThreads)
	}
	t := i.newThread(name)
	t.symSched = i.symSched
	go func() {
		defer close(t.exited)
		<-t.wake
		if t.killed {
			return
		}
		i.symSched = t.symSched
		defer func() {
			r := recover()
			t.done = true
			if r != nil {
				switch r := r.(type) {
				case pathAbort:
					if r.kind == "killed" {
						return
					}
					if i.pendingAbort == nil {
						i.pendingAbort = &r
					}
				case targetPanic:
					pa := pathAbort{kind: "violation", msg: "panic in goroutine " + name + ": " + r.String() + " " + r.where}
					i.recordViolation("uncaught panic in goroutine "+name+": "+r.String(), r.where)
					if i.pendingAbort == nil {
						i.pendingAbort = &pa
					}
				default:
					pa := pathAbort{kind: "engine", msg: fmt.Sprint(r)}
					if ee, ok := r.(engineError); ok {
						pa.msg = fmt.Sprint(ee.r) + "\n" + ee.where
					}
					if i.pendingAbort == nil {
						i.pendingAbort = &pa
					}
				}
				// hand control to the main thread so that it ends the path
				main := i.threads[0]
				main.blocked = nil
				i.cur = main
				main.wake <- struct{}{}
				return
			}
			i.threadExit(t)
		}()
		i.call(nil, pos, fn, args)
	}()
	if i.lateBudget > 0 && i.lateVictim == nil && !i.symSched {
		// late-goroutine mode: this goroutine is the one that is held back, or not
		if i.chooseIndex(2) == 1 {
			i.lateVictim, i.lateLeft = t, i.lateBudget
			i.lateBudget = 0
		}
	}
	if i.symSched || i.preemptBudget > 0 {
		i.yield(nil)
	}
}

// passOver implements late-goroutine mode: next is the thread the scheduler picked among
// cands; if it is the goroutine being held back and somebody else can run, it is either
// released or passed over (a decision), at most lateLeft times.
func (i *Interp) passOver(cur, next *thread, cands []*thread) *thread {
	v := i.lateVictim
	if v == nil || next != v {
		return next
	}
	var others []*thread
	for _, t := range cands {
		if t != v {
			others = append(others, t)
		}
	}
	if len(others) == 0 || i.lateLeft == 0 {
		i.lateVictim = nil // nobody else can run (or the budget is used up): released
		return next
	}
	if i.chooseIndex(2) == 0 {
		i.lateVictim = nil
		return next
	}
	i.lateLeft--
	alt := others[0]
	for _, t := range others {
		if t.id > v.id {
			alt = t
			break
		}
	}
	return alt
}

func (i *Interp) runnable() []*thread {
	var res []*thread
	for _, t := range i.threads {
		if t.done || t.killed {
			continue
		}
		if t.blocked == nil || t.blocked() {
			res = append(res, t)
		}
	}
	return res
}

// yield is a scheduling point of the current thread. If cond is non-nil the thread is
// blocked until cond() holds.
func (i *Interp) yield(cond func() bool) {
	cur := i.cur
	cur.blocked = cond
	if cond != nil && i.curFr != nil {
		cur.where = ""
		for f, k := i.curFr, 0; f != nil && k < 4; f, k = f.caller, k+1 {
			pos := ""
			if f.curInstr != nil {
				pos = i.prog.Fset.Position(f.curInstr.Pos()).String()
			}
			cur.where += " < " + f.fn.String() + " " + pos
		}
	}
	cands := i.runnable()
	if len(cands) == 0 {
		panic(pathAbort{kind: "deadlock", msg: "all goroutines are blocked (" + i.describeThreads() + ")"})
	}
	var next *thread
	if i.symSched && len(cands) > 1 {
		k := i.chooseIndex(len(cands))
		next = cands[k]
	} else if cond == nil && !i.symSched && i.preemptBudget > 0 && len(cands) > 1 {
		// preemption-bounded scheduling: the running thread continues (alternative 0) or is
		// preempted in favour of another runnable thread, which uses up one unit of the budget
		others := make([]*thread, 0, len(cands))
		for _, t := range cands {
			if t != cur {
				others = append(others, t)
			}
		}
		k := i.chooseIndex(len(others) + 1)
		if k == 0 {
			next = cur
		} else {
			next = others[k-1]
			i.preemptBudget--
		}
	} else if cond == nil && !i.symSched {
		next = cur
	} else {
		// round robin: first candidate after cur
		next = cands[0]
		for _, t := range cands {
			if t.id > cur.id {
				next = t
				break
			}
		}
	}
	if i.lateVictim != nil {
		next = i.passOver(cur, next, cands)
	}
	if next == cur {
		cur.blocked = nil
		return
	}
	i.switches++
	cur.symSched = i.symSched
	i.cur = next
	next.blocked = nil
	next.wake <- struct{}{}
	<-cur.wake
	i.afterWake(cur)
}

func (i *Interp) afterWake(t *thread) {
	if t.killed {
		panic(pathAbort{kind: "killed"})
	}
	i.symSched = t.symSched
	if i.pendingAbort != nil && t == i.threads[0] {
		pa := *i.pendingAbort
		i.pendingAbort = nil
		panic(pa)
	}
}

func (i *Interp) threadExit(t *thread) {
	t.done = true
	cands := i.runnable()
	if len(cands) == 0 {
		// everything else is blocked: deadlock, reported from the main thread
		pa := pathAbort{kind: "deadlock", msg: "all goroutines are blocked (" + i.describeThreads() + ")"}
		if i.pendingAbort == nil {
			i.pendingAbort = &pa
		}
		main := i.threads[0]
		main.blocked = nil
		i.cur = main
		main.wake <- struct{}{}
		return
	}
	next := cands[0]
	if i.lateVictim == next && len(cands) > 1 {
		next = cands[1] // the goroutine held back stays held back (no decision at thread exit)
	}
	if i.symSched && len(cands) > 1 {
		// the decision is taken in the context of the exiting thread
		func() {
			defer func() {
				if r := recover(); r != nil {
					if pa, ok := r.(pathAbort); ok {
						if i.pendingAbort == nil {
							i.pendingAbort = &pa
						}
						next = i.threads[0]
						return
					}
					panic(r)
				}
			}()
			next = cands[i.chooseIndex(len(cands))]
		}()
	}
	i.cur = next
	next.blocked = nil
	next.wake <- struct{}{}
}

func (i *Interp) describeThreads() string {
	s := ""
	for _, t := range i.threads {
		st := "runnable"
		if t.done {
			st = "done"
		} else if t.blocked != nil {
			st = "blocked at" + t.where
		}
		s += fmt.Sprintf("[%d %s %s]", t.id, t.name, st)
	}
	return s
}

// killThreads ends all threads except the main one (path end).
func (i *Interp) killThreads() {
	for _, t := range i.threads[1:] {
		if !t.done {
			t.killed = true
			t.wake <- struct{}{}
		}
		<-t.exited
	}
	i.threads = i.threads[:1]
	i.cur = i.threads[0]
	i.cur.blocked = nil
}

// ---- mutexes (state kept in a per-path side table keyed by the mutex address)

func (i *Interp) mutex(p *value) *mstate {
	m := i.mutexes[p]
	if m == nil {
		m = &mstate{}
		i.mutexes[p] = m
	}
	return m
}

func (i *Interp) lock(p *value) {
	m := i.mutex(p)
	if i.symSched || i.preemptBudget > 0 {
		i.yield(nil)
	}
	if m.locked || m.readers > 0 {
		i.yield(func() bool { return !m.locked && m.readers == 0 })
	}
	m.locked = true
	m.owner = i.cur
}

func (i *Interp) tryLock(p *value) bool {
	m := i.mutex(p)
	if m.locked || m.readers > 0 {
		return false
	}
	m.locked = true
	m.owner = i.cur
	return true
}

func (i *Interp) unlock(fr *frame, p *value) {
	m := i.mutex(p)
	if !m.locked {
		panic(targetPanic{v: iface{i.runtimeErrorType, "fatal error: sync: unlock of unlocked mutex"}, runtime: true, msg: "sync: unlock of unlocked mutex"})
	}
	m.locked = false
	m.owner = nil
}

func (i *Interp) rlock(p *value) {
	m := i.mutex(p)
	if i.symSched || i.preemptBudget > 0 {
		i.yield(nil)
	}
	if m.locked {
		i.yield(func() bool { return !m.locked })
	}
	m.readers++
}

func (i *Interp) runlock(p *value) {
	m := i.mutex(p)
	if m.readers <= 0 {
		panic(targetPanic{v: iface{i.runtimeErrorType, "fatal error: sync: RUnlock of unlocked RWMutex"}, runtime: true, msg: "sync: RUnlock of unlocked RWMutex"})
	}
	m.readers--
}

// ---- channels

func (i *Interp) chanMut(c *channel) {
	if i.logging {
		buf := append([]value(nil), c.buf...)
		closed, taken, sent := c.closed, c.taken, c.sent
		i.logUndo(func() { c.buf, c.closed, c.taken, c.sent = buf, closed, taken, sent })
	}
}

func (i *Interp) chanSend(fr *frame, c *channel, v value) {
	if c == nil {
		i.yield(func() bool { return false })
	}
	if i.symSched || i.preemptBudget > 0 {
		i.yield(nil)
	}
	if c.closed {
		i.runtimePanic(fr, "send on closed channel")
	}
	if c.cap > 0 {
		if len(c.buf) >= c.cap {
			i.yield(func() bool { return len(c.buf) < c.cap || c.closed })
			if c.closed {
				i.runtimePanic(fr, "send on closed channel")
			}
		}
		i.chanMut(c)
		c.buf = append(c.buf, v)
		c.sent++
		return
	}
	// unbuffered: wait for the slot, deposit, wait until taken
	if len(c.buf) > 0 {
		i.yield(func() bool { return len(c.buf) == 0 || c.closed })
		if c.closed {
			i.runtimePanic(fr, "send on closed channel")
		}
	}
	i.chanMut(c)
	c.buf = append(c.buf, v)
	c.sent++
	my := c.sent
	i.yield(func() bool { return c.taken >= my || c.closed })
	if c.taken < my && c.closed {
		i.runtimePanic(fr, "send on closed channel")
	}
}

func (i *Interp) chanRecv(fr *frame, c *channel, commaOk bool) value {
	if c == nil {
		i.yield(func() bool { return false })
	}
	if i.symSched || i.preemptBudget > 0 {
		i.yield(nil)
	}
	if len(c.buf) == 0 && !c.closed {
		c.recvW++
		i.yield(func() bool { return len(c.buf) > 0 || c.closed })
		c.recvW--
	}
	var v value
	ok := false
	if len(c.buf) > 0 {
		i.chanMut(c)
		v = c.buf[0]
		c.buf = append([]value(nil), c.buf[1:]...)
		c.taken++
		ok = true
	} else {
		v = zero(c.elem)
	}
	if commaOk {
		return tuple{v, ok}
	}
	return v
}

func (i *Interp) chanClose(fr *frame, c *channel) {
	if c == nil {
		i.runtimePanic(fr, "close of nil channel")
	}
	if c.closed {
		i.runtimePanic(fr, "close of closed channel")
	}
	i.chanMut(c)
	c.closed = true
}

func (c *channel) canRecv() bool { return c != nil && (len(c.buf) > 0 || c.closed) }
func (c *channel) canSend() bool {
	if c == nil {
		return false
	}
	if c.closed {
		return true // will panic
	}
	if c.cap > 0 {
		return len(c.buf) < c.cap
	}
	return c.recvW > 0 && len(c.buf) == 0
}

func (i *Interp) doSelect(fr *frame, instr *ssa.Select) value {
	type sc struct {
		c    *channel
		send bool
		v    value
	}
	cases := make([]sc, len(instr.States))
	for k, st := range instr.States {
		cases[k].c, _ = fr.get(st.Chan).(*channel)
		if st.Dir == types.SendOnly {
			cases[k].send = true
			cases[k].v = fr.get(st.Send)
		}
	}
	ready := func() []int {
		var r []int
		for k, c := range cases {
			if c.send && c.c.canSend() || !c.send && c.c.canRecv() {
				r = append(r, k)
			}
		}
		return r
	}
	if i.symSched || i.preemptBudget > 0 {
		i.yield(nil)
	}
	rs := ready()
	if len(rs) == 0 {
		if !instr.Blocking {
			r := tuple{int64(-1), false}
			for _, st := range instr.States {
				if st.Dir == types.RecvOnly {
					r = append(r, zero(st.Chan.Type().Underlying().(*types.Chan).Elem()))
				}
			}
			// a polling loop: let others run
			i.pollYield()
			return r
		}
		for _, c := range cases {
			if !c.send && c.c != nil {
				c.c.recvW++
			}
		}
		i.yield(func() bool { return len(ready()) > 0 })
		for _, c := range cases {
			if !c.send && c.c != nil {
				c.c.recvW--
			}
		}
		rs = ready()
	}
	chosen := rs[0]
	if i.symSched && len(rs) > 1 {
		chosen = rs[i.chooseIndex(len(rs))]
	}
	var recv value
	recvOk := false
	c := cases[chosen]
	if c.send {
		if c.c.closed {
			i.runtimePanic(fr, "send on closed channel")
		}
		i.chanMut(c.c)
		c.c.buf = append(c.c.buf, c.v)
		c.c.sent++
		if c.c.cap == 0 {
			my := c.c.sent
			cc := c.c
			i.yield(func() bool { return cc.taken >= my || cc.closed })
		}
	} else {
		if len(c.c.buf) > 0 {
			i.chanMut(c.c)
			recv = c.c.buf[0]
			c.c.buf = append([]value(nil), c.c.buf[1:]...)
			c.c.taken++
			recvOk = true
		}
	}
	r := tuple{int64(chosen), recvOk}
	for k, st := range instr.States {
		if st.Dir == types.RecvOnly {
			if k == chosen && recvOk {
				r = append(r, recv)
			} else {
				r = append(r, zero(st.Chan.Type().Underlying().(*types.Chan).Elem()))
			}
		}
	}
	return r
}

// pollYield is called where the program polls (Sleep, Gosched, select-default): other
// threads get a chance to run; a thread that polls again without anyone else having run
// is parked until some other thread has made a step (fair-schedule assumption).
func (i *Interp) pollYield() {
	cur := i.cur
	others := false
	for _, t := range i.threads {
		if t != cur && !t.done && !t.killed && (t.blocked == nil || t.blocked()) {
			others = true
		}
	}
	if !others {
		// nobody else can run: time passes, the poller continues (endless polling is
		// caught by the step bound)
		return
	}
	if v := i.lateVictim; v != nil && v != cur {
		// late-goroutine mode: if the goroutine held back is the only one that could use the
		// pause, either it is released now or the pause passes without it having run
		only := true
		for _, t := range i.threads {
			if t != cur && t != v && !t.done && !t.killed && (t.blocked == nil || t.blocked()) {
				only = false
			}
		}
		if only {
			if i.lateLeft > 0 && i.chooseIndex(2) == 1 {
				i.lateLeft--
				return
			}
			i.lateVictim = nil
		}
	}
	mark := i.switches
	i.yield(func() bool { return i.switches > mark })
}
