package main

// A minimal model of reflect / internal/reflectlite: TypeOf, Kind, Elem, String.

import (
	"go/types"
	"reflect"
)

func kindOf(t types.Type) reflect.Kind {
	switch u := t.Underlying().(type) {
	case *types.Basic:
		switch u.Kind() {
		case types.Bool:
			return reflect.Bool
		case types.Int:
			return reflect.Int
		case types.Int8:
			return reflect.Int8
		case types.Int16:
			return reflect.Int16
		case types.Int32:
			return reflect.Int32
		case types.Int64:
			return reflect.Int64
		case types.Uint:
			return reflect.Uint
		case types.Uint8:
			return reflect.Uint8
		case types.Uint16:
			return reflect.Uint16
		case types.Uint32:
			return reflect.Uint32
		case types.Uint64:
			return reflect.Uint64
		case types.Uintptr:
			return reflect.Uintptr
		case types.Float32:
			return reflect.Float32
		case types.Float64:
			return reflect.Float64
		case types.Complex64:
			return reflect.Complex64
		case types.Complex128:
			return reflect.Complex128
		case types.String:
			return reflect.String
		case types.UnsafePointer:
			return reflect.UnsafePointer
		}
	case *types.Array:
		return reflect.Array
	case *types.Chan:
		return reflect.Chan
	case *types.Signature:
		return reflect.Func
	case *types.Interface:
		return reflect.Interface
	case *types.Map:
		return reflect.Map
	case *types.Pointer:
		return reflect.Pointer
	case *types.Slice:
		return reflect.Slice
	case *types.Struct:
		return reflect.Struct
	}
	return reflect.Invalid
}

var rtypeExt *extType

func mkRtype(t types.Type) value {
	return iface{t: rtypeExt, v: rtype{t}}
}

func init() {
	rtypeExt = &extType{name: "*reflect.rtype", methods: map[string]*extFunc{}}
	m := func(name string, f func(i *Interp, fr *frame, t types.Type, a []value) value) {
		rtypeExt.methods[name] = &extFunc{name: name, f: func(i *Interp, fr *frame, a []value) value {
			return f(i, fr, a[0].(rtype).t, a[1:])
		}}
	}
	m("Kind", func(i *Interp, fr *frame, t types.Type, a []value) value { return int64(kindOf(t)) })
	m("String", func(i *Interp, fr *frame, t types.Type, a []value) value { return t.String() })
	m("Name", func(i *Interp, fr *frame, t types.Type, a []value) value {
		if n, ok := t.(*types.Named); ok {
			return n.Obj().Name()
		}
		if b, ok := t.(*types.Basic); ok {
			return b.Name()
		}
		return ""
	})
	m("Comparable", func(i *Interp, fr *frame, t types.Type, a []value) value { return types.Comparable(t) })
	m("Elem", func(i *Interp, fr *frame, t types.Type, a []value) value {
		switch u := t.Underlying().(type) {
		case *types.Pointer:
			return mkRtype(u.Elem())
		case *types.Slice:
			return mkRtype(u.Elem())
		case *types.Array:
			return mkRtype(u.Elem())
		case *types.Map:
			return mkRtype(u.Elem())
		case *types.Chan:
			return mkRtype(u.Elem())
		}
		i.runtimePanic(fr, "reflect: Elem of invalid type %s", t)
		return nil
	})
	m("Key", func(i *Interp, fr *frame, t types.Type, a []value) value {
		if u, ok := t.Underlying().(*types.Map); ok {
			return mkRtype(u.Key())
		}
		i.runtimePanic(fr, "reflect: Key of non-map type %s", t)
		return nil
	})
	m("Implements", func(i *Interp, fr *frame, t types.Type, a []value) value {
		u := a[0].(iface).v.(rtype).t
		it, ok := u.Underlying().(*types.Interface)
		if !ok {
			return false
		}
		return types.Implements(t, it)
	})
	m("AssignableTo", func(i *Interp, fr *frame, t types.Type, a []value) value {
		return types.AssignableTo(t, a[0].(iface).v.(rtype).t)
	})
	typeOf := func(i *Interp, fr *frame, a []value) value {
		x := a[0].(iface)
		if x.t == nil {
			return iface{}
		}
		return mkRtype(x.t)
	}
	intrinsics["reflect.TypeOf"] = typeOf
	intrinsics["internal/reflectlite.TypeOf"] = typeOf
	intrinsics["(reflect.Kind).String"] = func(i *Interp, fr *frame, a []value) value {
		return reflect.Kind(a[0].(int64)).String()
	}
}
