package main

// Intrinsics: the harness API (zzverif/rt), and models of functions that cannot be
// interpreted from source (assembly leaves, runtime-linked functions, OS access).
// Every intrinsic actually used by a run is listed in that run's evidence.

import (
	"fmt"
	"go/types"
	"math"
	"strings"

	"golang.org/x/tools/go/ssa"
)

type intrinsicFn func(i *Interp, fr *frame, args []value) value

const rtPkg = "github.com/lmorg/murex/zzverif/rt"

var intrinsics = map[string]intrinsicFn{}

func lookupIntrinsic(name string) intrinsicFn {
	return intrinsics[name]
}

// extType / extFunc: engine-provided dynamic types and functions.
type extFunc struct {
	name string
	f    func(i *Interp, fr *frame, args []value) value
}

type extType struct {
	name    string
	methods map[string]*extFunc
}

func (e *extType) Underlying() types.Type { return e }
func (e *extType) String() string         { return e.name }
func (e *extType) method(n string) value {
	if m, ok := e.methods[n]; ok {
		return m
	}
	return nil
}

// nativeObj wraps a Go object of the engine (compiled regexp, ...).
type nativeObj struct{ o interface{} }

func (i *Interp) inputName(base string) string {
	k := i.inputSeq[base]
	i.inputSeq[base] = k + 1
	if k == 0 {
		return base
	}
	return fmt.Sprintf("%s#%d", base, k)
}

func concreteString(i *Interp, v value, what string) string {
	s, ok := v.(string)
	if !ok {
		i.unsupported("%s needs a concrete string", what)
	}
	return s
}

func (i *Interp) mkError(msg value) value {
	// build an *errors.errorString
	p := value(structure{msg})
	return iface{t: i.errorStringPtr, v: &p}
}

func boolOf(i *Interp, v value) *Term { return i.boolTerm(v) }

func init() {
	reg := func(name string, f intrinsicFn) { intrinsics[name] = f }
	rt := func(name string, f intrinsicFn) { intrinsics[rtPkg+"."+name] = f }

	// ---------------- harness API
	rt("Symbolic", func(i *Interp, fr *frame, a []value) value { return true })
	rt("Param", func(i *Interp, fr *frame, a []value) value {
		n := concreteString(i, a[0], "rt.Param")
		v, ok := i.cfg.Params[n]
		if !ok {
			i.unsupported("rt.Param(%q): no such parameter in the spec", n)
		}
		return v
	})
	symInt := func(w int, signed bool) intrinsicFn {
		return func(i *Interp, fr *frame, a []value) value {
			return i.tt.Var(i.inputName(concreteString(i, a[0], "rt input name")), bvSort(w))
		}
	}
	rt("Int", symInt(64, true))
	rt("Int64", symInt(64, true))
	rt("Uint64", symInt(64, false))
	rt("Int32", symInt(32, true))
	rt("Uint32", symInt(32, false))
	rt("Rune", symInt(32, true))
	rt("Byte", symInt(8, false))
	rt("Uint8", symInt(8, false))
	rt("Bool", func(i *Interp, fr *frame, a []value) value {
		return i.tt.Var(i.inputName(concreteString(i, a[0], "rt.Bool")), SBool)
	})
	rt("Float64", func(i *Interp, fr *frame, a []value) value {
		return i.tt.Var(i.inputName(concreteString(i, a[0], "rt.Float64")), SFP64)
	})
	rt("IntRange", func(i *Interp, fr *frame, a []value) value {
		t := i.tt.Var(i.inputName(concreteString(i, a[0], "rt.IntRange")), SBV64)
		lo, hi := a[1].(int64), a[2].(int64)
		c := i.tt.And(i.tt.BVCmp("bvsle", i.tt.BV(64, uint64(lo)), t), i.tt.BVCmp("bvsle", t, i.tt.BV(64, uint64(hi))))
		i.assume(termToValue(c, intKind{}))
		return t
	})
	rt("Choice", func(i *Interp, fr *frame, a []value) value {
		// concrete choice in [0,n): forks without involving the solver's arithmetic
		n := a[1].(int64)
		name := i.inputName(concreteString(i, a[0], "rt.Choice"))
		t := i.tt.Var(name, SBV64)
		c := i.tt.BVCmp("bvult", t, i.tt.BV(64, uint64(n)))
		i.assume(termToValue(c, intKind{}))
		return int64(i.choose(t))
	})
	rt("Bytes", func(i *Interp, fr *frame, a []value) value {
		base := concreteString(i, a[0], "rt.Bytes")
		n := i.concreteInt(fr, a[1])
		s := make([]value, n)
		for k := range s {
			s[k] = i.tt.Var(i.inputName(fmt.Sprintf("%s[%d]", base, k)), SBV8)
		}
		return s
	})
	rt("String", func(i *Interp, fr *frame, a []value) value {
		base := concreteString(i, a[0], "rt.String")
		n := i.concreteInt(fr, a[1])
		if n == 0 {
			return ""
		}
		s := make([]value, n)
		for k := range s {
			s[k] = i.tt.Var(i.inputName(fmt.Sprintf("%s[%d]", base, k)), SBV8)
		}
		return &symstr{s}
	})
	rt("Runes", func(i *Interp, fr *frame, a []value) value {
		base := concreteString(i, a[0], "rt.Runes")
		n := i.concreteInt(fr, a[1])
		s := make([]value, n)
		for k := range s {
			s[k] = i.tt.Var(i.inputName(fmt.Sprintf("%s[%d]", base, k)), SBV32)
		}
		return s
	})
	rt("Assume", func(i *Interp, fr *frame, a []value) value { i.assume(a[0]); return nil })
	rt("Assert", func(i *Interp, fr *frame, a []value) value {
		i.assertProp(a[0], toPlain(a[1]), fr)
		return nil
	})
	rt("Fail", func(i *Interp, fr *frame, a []value) value {
		i.assertProp(false, toPlain(a[0]), fr)
		return nil
	})
	rt("Reach", func(i *Interp, fr *frame, a []value) value {
		i.path.reached[concreteString(i, a[0], "rt.Reach")] = true
		return nil
	})
	rt("Note", func(i *Interp, fr *frame, a []value) value {
		i.path.notes = append(i.path.notes, toPlain(a[0]))
		return nil
	})
	rt("And", func(i *Interp, fr *frame, a []value) value { return i.and(a[0], a[1]) })
	rt("Or", func(i *Interp, fr *frame, a []value) value { return i.or(a[0], a[1]) })
	rt("Not", func(i *Interp, fr *frame, a []value) value { return i.not(a[0]) })
	rt("Implies", func(i *Interp, fr *frame, a []value) value { return i.or(i.not(a[0]), a[1]) })
	rt("IteInt", func(i *Interp, fr *frame, a []value) value {
		switch c := a[0].(type) {
		case bool:
			if c {
				return a[1]
			}
			return a[2]
		case *Term:
			k := intKind{64, true}
			return termToValue(i.tt.Ite(c, i.intTerm(a[1], k), i.intTerm(a[2], k)), k)
		}
		panic("IteInt")
	})
	rt("SameFloat", func(i *Interp, fr *frame, a []value) value {
		// equal as numbers, or both NaN (one term, no forking)
		x, xs := a[0].(*Term)
		y, ys := a[1].(*Term)
		if !xs && !ys {
			xf, yf := a[0].(float64), a[1].(float64)
			return xf == yf || (xf != xf && yf != yf)
		}
		if !xs {
			x = i.tt.FP(a[0].(float64))
		}
		if !ys {
			y = i.tt.FP(a[1].(float64))
		}
		both := i.tt.And(i.tt.FPPred("fp.isNaN", x), i.tt.FPPred("fp.isNaN", y))
		return i.tt.Or(i.tt.FPCmp("fp.eq", x, y), both)
	})
	rt("Stub", func(i *Interp, fr *frame, a []value) value {
		name := concreteString(i, a[0], "rt.Stub")
		if i.stubs == nil {
			i.stubs = map[string]value{}
		}
		f := a[1].(iface).v
		i.stubs[name] = f
		return nil
	})
	rt("Unstub", func(i *Interp, fr *frame, a []value) value {
		delete(i.stubs, concreteString(i, a[0], "rt.Unstub"))
		return nil
	})
	rt("Concrete", func(i *Interp, fr *frame, a []value) value { return i.concreteInt(fr, a[0]) })
	rt("ConcreteString", func(i *Interp, fr *frame, a []value) value {
		b := strBytes(a[0])
		out := make([]byte, len(b))
		for k, x := range b {
			switch x := x.(type) {
			case int64:
				out[k] = byte(x)
			case *Term:
				out[k] = byte(i.choose(x))
			}
		}
		return string(out)
	})
	rt("SymSched", func(i *Interp, fr *frame, a []value) value { i.symSched = a[0].(bool); return nil })
	rt("PreemptBound", func(i *Interp, fr *frame, a []value) value {
		// from now on: at every synchronisation point the running goroutine may be preempted in
		// favour of any other runnable goroutine, at most k times on a path (k = 0 switches it off)
		i.preemptBudget = int(a[0].(int64))
		return nil
	})
	rt("LateGoroutine", func(i *Interp, fr *frame, a []value) value {
		// from now on: one goroutine started later on the path may be chosen (symbolically) to be
		// late: whenever the scheduler would hand it the processor while another goroutine can
		// run, it is either released (runs normally from then on) or passed over, at most n times
		i.lateBudget = int(a[0].(int64))
		i.lateVictim, i.lateLeft = nil, 0
		return nil
	})
	rt("Yield", func(i *Interp, fr *frame, a []value) value { i.pollYield(); return nil })
	rt("WaitIdle", func(i *Interp, fr *frame, a []value) value {
		// block the calling thread until every other thread is done or blocked
		for {
			others := false
			for _, t := range i.threads {
				if t != i.cur && !t.done && (t.blocked == nil || t.blocked()) {
					others = true
				}
			}
			if !others {
				return nil
			}
			mark := i.switches
			i.yield(func() bool { return i.switches > mark })
		}
	})
	rt("Clock", func(i *Interp, fr *frame, a []value) value {
		// arbitrary non-decreasing instants
		t := i.tt.Var(i.inputName("clock"), SBV64)
		if i.clock != nil {
			i.assume(termToValue(i.tt.BVCmp("bvsle", i.clock, t), intKind{}))
		} else {
			i.assume(termToValue(i.tt.BVCmp("bvsle", i.tt.BV(64, 0), t), intKind{}))
		}
		i.assume(termToValue(i.tt.BVCmp("bvsle", t, i.tt.BV(64, 1<<40)), intKind{}))
		i.clock = t
		return t
	})
	rt("CatchPanic", func(i *Interp, fr *frame, a []value) (res value) {
		// CatchPanic(f func()) (msg string, panicked bool)
		defer func() {
			if r := recover(); r != nil {
				if tp, ok := r.(targetPanic); ok {
					res = tuple{tp.String(), true}
					return
				}
				panic(r)
			}
		}()
		i.call(fr, 0, a[0], nil)
		return tuple{"", false}
	})
	rt("Persistent", func(i *Interp, fr *frame, a []value) value {
		// runs with the undo log off, so that its effects belong to the initial state
		saved := i.logging
		i.logging = false
		i.initDepth++
		defer func() { i.logging = saved; i.initDepth-- }()
		i.call(fr, 0, a[0], nil)
		return nil
	})
	rt("KnownFinding", func(i *Interp, fr *frame, a []value) value {
		// KnownFinding(id, pred): inputs matching an *open* known finding are set aside in the
		// main run and explored on their own in the known-finding run. Ids that are not listed
		// as open in known_findings.json constrain nothing.
		id := concreteString(i, a[0], "rt.KnownFinding")
		if !i.cfg.Known[id] {
			return nil
		}
		i.exp.mu.Lock()
		if i.exp.stats.KnownIDs == nil {
			i.exp.stats.KnownIDs = map[string]bool{}
		}
		i.exp.stats.KnownIDs[id] = true
		i.exp.mu.Unlock()
		if i.cfg.OnlyFinding == id {
			i.assume(a[1])
		} else {
			i.assume(i.not(a[1]))
		}
		return nil
	})
	rt("RecoveredPanics", func(i *Interp, fr *frame, a []value) value { return int64(len(i.path.recovered)) })
	rt("Steps", func(i *Interp, fr *frame, a []value) value { return i.steps })
	rt("IsSymbolic", func(i *Interp, fr *frame, a []value) value {
		return isSym(a[0].(iface).v)
	})
	rt("Approx", func(i *Interp, fr *frame, a []value) value { return int64(len(i.path.approx)) })

	// ---------------- sync
	reg("(*sync.Mutex).Lock", func(i *Interp, fr *frame, a []value) value { i.lock(a[0].(*value)); return nil })
	reg("(*sync.Mutex).Unlock", func(i *Interp, fr *frame, a []value) value { i.unlock(fr, a[0].(*value)); return nil })
	reg("(*sync.Mutex).TryLock", func(i *Interp, fr *frame, a []value) value { return i.tryLock(a[0].(*value)) })
	reg("(*sync.RWMutex).Lock", func(i *Interp, fr *frame, a []value) value { i.lock(a[0].(*value)); return nil })
	reg("(*sync.RWMutex).Unlock", func(i *Interp, fr *frame, a []value) value { i.unlock(fr, a[0].(*value)); return nil })
	reg("(*sync.RWMutex).RLock", func(i *Interp, fr *frame, a []value) value { i.rlock(a[0].(*value)); return nil })
	reg("(*sync.RWMutex).RUnlock", func(i *Interp, fr *frame, a []value) value { i.runlock(a[0].(*value)); return nil })
	reg("(*sync.RWMutex).TryLock", func(i *Interp, fr *frame, a []value) value { return i.tryLock(a[0].(*value)) })
	reg("(*sync.WaitGroup).Add", func(i *Interp, fr *frame, a []value) value {
		m := i.mutex(a[0].(*value))
		m.readers += int(a[1].(int64))
		if m.readers < 0 {
			panic(targetPanic{v: iface{i.runtimeErrorType, "sync: negative WaitGroup counter"}, runtime: true, msg: "sync: negative WaitGroup counter"})
		}
		return nil
	})
	reg("(*sync.WaitGroup).Done", func(i *Interp, fr *frame, a []value) value {
		m := i.mutex(a[0].(*value))
		m.readers--
		if m.readers < 0 {
			panic(targetPanic{v: iface{i.runtimeErrorType, "sync: negative WaitGroup counter"}, runtime: true, msg: "sync: negative WaitGroup counter"})
		}
		return nil
	})
	reg("(*sync.WaitGroup).Wait", func(i *Interp, fr *frame, a []value) value {
		m := i.mutex(a[0].(*value))
		if i.symSched || i.preemptBudget > 0 {
			i.yield(nil)
		}
		if m.readers > 0 {
			i.yield(func() bool { return m.readers == 0 })
		}
		return nil
	})
	reg("(*sync.Pool).Get", func(i *Interp, fr *frame, a []value) value {
		p := a[0].(*value)
		s := (*p).(structure)
		// field "New" is the last field
		newf := s[len(s)-1]
		if !isNilFunc(newf) {
			return i.call(fr, 0, newf, nil)
		}
		return iface{}
	})
	reg("(*sync.Pool).Put", func(i *Interp, fr *frame, a []value) value { return nil })

	// ---------------- sync/atomic leaves
	load := func(i *Interp, fr *frame, a []value) value { return copyVal(*(a[0].(*value))) }
	store := func(i *Interp, fr *frame, a []value) value { i.setCell(a[0].(*value), a[1]); return nil }
	swap := func(i *Interp, fr *frame, a []value) value {
		p := a[0].(*value)
		old := *p
		i.setCell(p, a[1])
		return old
	}
	for _, t := range []string{"Int32", "Int64", "Uint32", "Uint64", "Uintptr", "Pointer"} {
		reg("sync/atomic.Load"+t, load)
		reg("sync/atomic.Store"+t, store)
		reg("sync/atomic.Swap"+t, swap)
	}
	addK := func(k intKind) intrinsicFn {
		return func(i *Interp, fr *frame, a []value) value {
			p := a[0].(*value)
			var nv value
			_, s1 := (*p).(*Term)
			_, s2 := a[1].(*Term)
			if s1 || s2 {
				nv = termToValue(i.tt.BVBin("bvadd", i.intTerm(*p, k), i.intTerm(a[1], k)), k)
			} else {
				nv = k.norm((*p).(int64) + a[1].(int64))
			}
			i.setCell(p, nv)
			return nv
		}
	}
	reg("sync/atomic.AddInt32", addK(intKind{32, true}))
	reg("sync/atomic.AddInt64", addK(intKind{64, true}))
	reg("sync/atomic.AddUint32", addK(intKind{32, false}))
	reg("sync/atomic.AddUint64", addK(intKind{64, false}))
	reg("sync/atomic.AddUintptr", addK(intKind{64, false}))
	cas := func(i *Interp, fr *frame, a []value) value {
		p := a[0].(*value)
		eq := i.equals(nil, *p, a[1])
		if i.truth(fr, eq) {
			i.setCell(p, a[2])
			return true
		}
		return false
	}
	for _, t := range []string{"Int32", "Int64", "Uint32", "Uint64", "Uintptr", "Pointer"} {
		reg("sync/atomic.CompareAndSwap"+t, cas)
	}
	reg("(*sync/atomic.Value).Load", func(i *Interp, fr *frame, a []value) value {
		s := (*(a[0].(*value))).(structure)
		return s[0]
	})
	reg("(*sync/atomic.Value).Store", func(i *Interp, fr *frame, a []value) value {
		s := (*(a[0].(*value))).(structure)
		i.setCell(&s[0], a[1])
		return nil
	})

	// ---------------- runtime / os / time
	reg("runtime.Gosched", func(i *Interp, fr *frame, a []value) value { i.pollYield(); return nil })
	reg("runtime.GC", func(i *Interp, fr *frame, a []value) value { return nil })
	reg("runtime.NumCPU", func(i *Interp, fr *frame, a []value) value { return int64(4) })
	reg("runtime.NumGoroutine", func(i *Interp, fr *frame, a []value) value { return int64(len(i.threads)) })
	reg("runtime.GOMAXPROCS", func(i *Interp, fr *frame, a []value) value { return int64(4) })
	reg("runtime.KeepAlive", func(i *Interp, fr *frame, a []value) value { return nil })
	reg("runtime.SetFinalizer", func(i *Interp, fr *frame, a []value) value { return nil })
	reg("runtime.Caller", func(i *Interp, fr *frame, a []value) value {
		return tuple{int64(0), "", int64(0), false}
	})
	reg("runtime.Stack", func(i *Interp, fr *frame, a []value) value { return int64(0) })
	reg("runtime/debug.Stack", func(i *Interp, fr *frame, a []value) value { return []value{} })
	reg("runtime/debug.PrintStack", func(i *Interp, fr *frame, a []value) value { return nil })
	reg("time.Sleep", func(i *Interp, fr *frame, a []value) value { i.pollYield(); return nil })
	reg("time.Now", func(i *Interp, fr *frame, a []value) value {
		i.nclock++
		return structure{int64(0), int64(63_000_000_000 + int64(i.nclock)), (*value)(nil)}
	})
	reg("time.Since", func(i *Interp, fr *frame, a []value) value { return int64(1000) })
	reg("time.runtimeNano", func(i *Interp, fr *frame, a []value) value { i.nclock++; return int64(i.nclock) * 1000 })
	reg("os.Getenv", func(i *Interp, fr *frame, a []value) value { return "" })
	reg("os.LookupEnv", func(i *Interp, fr *frame, a []value) value { return tuple{"", false} })
	reg("os.Setenv", func(i *Interp, fr *frame, a []value) value { return iface{} })
	reg("os.Unsetenv", func(i *Interp, fr *frame, a []value) value { return iface{} })
	reg("os.Environ", func(i *Interp, fr *frame, a []value) value { return []value{} })
	reg("os.Getpid", func(i *Interp, fr *frame, a []value) value { return int64(4242) })
	reg("os.Getppid", func(i *Interp, fr *frame, a []value) value { return int64(4241) })
	reg("os.Getwd", func(i *Interp, fr *frame, a []value) value { return tuple{"/verif-cwd", iface{}} })
	reg("os.Hostname", func(i *Interp, fr *frame, a []value) value { return tuple{"verifhost", iface{}} })
	reg("os.Executable", func(i *Interp, fr *frame, a []value) value { return tuple{"/usr/bin/murex", iface{}} })
	reg("os.UserHomeDir", func(i *Interp, fr *frame, a []value) value { return tuple{"/home/verif", iface{}} })
	reg("os.Exit", func(i *Interp, fr *frame, a []value) value {
		panic(pathAbort{kind: "unsupported", msg: "os.Exit called"})
	})
	fileWrite := func(i *Interp, fr *frame, a []value) value {
		n := 0
		switch b := a[1].(type) {
		case []value:
			n = len(b)
		default:
			n = strLen(b)
		}
		return tuple{int64(n), iface{}}
	}
	reg("(*os.File).Write", fileWrite)
	reg("(*os.File).WriteString", fileWrite)
	reg("(*os.File).Fd", func(i *Interp, fr *frame, a []value) value { return int64(1) })
	reg("(*os.File).Close", func(i *Interp, fr *frame, a []value) value { return iface{} })
	reg("(*os.File).Sync", func(i *Interp, fr *frame, a []value) value { return iface{} })

	// ---------------- unsafe-ish leaves
	reg("internal/abi.NoEscape", func(i *Interp, fr *frame, a []value) value { return a[0] })
	reg("internal/abi.Escape", func(i *Interp, fr *frame, a []value) value { return a[0] })
	reg("internal/bytealg.MakeNoZero", func(i *Interp, fr *frame, a []value) value {
		n := i.concreteInt(fr, a[0])
		s := make([]value, n)
		for k := range s {
			s[k] = int64(0)
		}
		return s
	})
	reg("(*strings.Builder).copyCheck", func(i *Interp, fr *frame, a []value) value { return nil })
	reg("strings.noescape", func(i *Interp, fr *frame, a []value) value { return a[0] })
	reg("internal/race.Enable", nil)
	delete(intrinsics, "internal/race.Enable")

	// ---------------- internal/bytealg
	idxByte := func(i *Interp, fr *frame, b []value, c value) value {
		for k, x := range b {
			eq := i.equals(nil, x, c)
			if i.truth(fr, eq) {
				return int64(k)
			}
		}
		return int64(-1)
	}
	reg("internal/bytealg.IndexByte", func(i *Interp, fr *frame, a []value) value { return idxByte(i, fr, a[0].([]value), a[1]) })
	reg("internal/bytealg.IndexByteString", func(i *Interp, fr *frame, a []value) value { return idxByte(i, fr, strBytes(a[0]), a[1]) })
	lastIdxByte := func(i *Interp, fr *frame, b []value, c value) value {
		for k := len(b) - 1; k >= 0; k-- {
			if i.truth(fr, i.equals(nil, b[k], c)) {
				return int64(k)
			}
		}
		return int64(-1)
	}
	reg("internal/bytealg.LastIndexByte", func(i *Interp, fr *frame, a []value) value { return lastIdxByte(i, fr, a[0].([]value), a[1]) })
	reg("internal/bytealg.LastIndexByteString", func(i *Interp, fr *frame, a []value) value { return lastIdxByte(i, fr, strBytes(a[0]), a[1]) })
	count := func(i *Interp, fr *frame, b []value, c value) value {
		// non-forking: sum of ite
		allc := true
		n := int64(0)
		var acc *Term
		for _, x := range b {
			eq := i.equals(nil, x, c)
			switch e := eq.(type) {
			case bool:
				if e {
					n++
				}
			case *Term:
				allc = false
				t := i.tt.Ite(e, i.tt.BV(64, 1), i.tt.BV(64, 0))
				if acc == nil {
					acc = t
				} else {
					acc = i.tt.BVBin("bvadd", acc, t)
				}
			}
		}
		if allc {
			return n
		}
		return i.tt.BVBin("bvadd", acc, i.tt.BV(64, uint64(n)))
	}
	reg("internal/bytealg.Count", func(i *Interp, fr *frame, a []value) value { return count(i, fr, a[0].([]value), a[1]) })
	reg("internal/bytealg.CountString", func(i *Interp, fr *frame, a []value) value { return count(i, fr, strBytes(a[0]), a[1]) })
	index := func(i *Interp, fr *frame, s, sep []value) value {
		for k := 0; k+len(sep) <= len(s); k++ {
			var acc value = true
			for j := range sep {
				acc = i.and(acc, i.equals(nil, s[k+j], sep[j]))
				if b, ok := acc.(bool); ok && !b {
					break
				}
			}
			if i.truth(fr, acc) {
				return int64(k)
			}
		}
		return int64(-1)
	}
	reg("internal/bytealg.Index", func(i *Interp, fr *frame, a []value) value { return index(i, fr, a[0].([]value), a[1].([]value)) })
	reg("internal/bytealg.IndexString", func(i *Interp, fr *frame, a []value) value { return index(i, fr, strBytes(a[0]), strBytes(a[1])) })
	reg("internal/bytealg.Equal", func(i *Interp, fr *frame, a []value) value {
		return i.strEq(mkStr(a[0].([]value)), mkStr(a[1].([]value)))
	})
	reg("bytes.Equal", func(i *Interp, fr *frame, a []value) value {
		return i.strEq(mkStr(a[0].([]value)), mkStr(a[1].([]value)))
	})
	cmp := func(i *Interp, fr *frame, x, y value) value {
		if i.truth(fr, i.strEq(x, y)) {
			return int64(0)
		}
		if i.truth(fr, i.strLess(x, y, false)) {
			return int64(-1)
		}
		return int64(1)
	}
	reg("internal/bytealg.Compare", func(i *Interp, fr *frame, a []value) value {
		return cmp(i, fr, mkStr(a[0].([]value)), mkStr(a[1].([]value)))
	})
	reg("internal/bytealg.CompareString", func(i *Interp, fr *frame, a []value) value { return cmp(i, fr, a[0], a[1]) })
	reg("strings.Compare", func(i *Interp, fr *frame, a []value) value { return cmp(i, fr, a[0], a[1]) })
	reg("internal/stringslite.Index", nil)
	delete(intrinsics, "internal/stringslite.Index")

	// ---------------- math
	f1 := func(name string, f func(float64) float64, symop string) {
		reg("math."+name, func(i *Interp, fr *frame, a []value) value {
			switch x := a[0].(type) {
			case float64:
				return f(x)
			case *Term:
				if symop != "" {
					if strings.HasPrefix(symop, "round:") {
						return i.tt.mk("fp.roundToIntegral:"+symop[6:], SFP64, 0, 0, 0, "", x)
					}
					return i.tt.FPUn(symop, x)
				}
			}
			i.unsupported("math.%s on a symbolic float", name)
			return nil
		})
	}
	f1("Abs", math.Abs, "fp.abs")
	f1("Floor", math.Floor, "round:RTN")
	f1("Ceil", math.Ceil, "round:RTP")
	f1("Trunc", math.Trunc, "round:RTZ")
	f1("Round", math.Round, "round:RNA")
	f1("RoundToEven", math.RoundToEven, "round:RNE")
	f1("Sqrt", math.Sqrt, "")
	f1("Log", math.Log, "")
	f1("Log2", math.Log2, "")
	f1("Log10", math.Log10, "")
	f1("Exp", math.Exp, "")
	f1("Sin", math.Sin, "")
	f1("Cos", math.Cos, "")
	reg("math.archFloor", intrinsics["math.Floor"])
	reg("math.archCeil", intrinsics["math.Ceil"])
	reg("math.archTrunc", intrinsics["math.Trunc"])
	reg("math.archSqrt", intrinsics["math.Sqrt"])
	f2 := func(name string, f func(float64, float64) float64) {
		reg("math."+name, func(i *Interp, fr *frame, a []value) value {
			x, ok1 := a[0].(float64)
			y, ok2 := a[1].(float64)
			if ok1 && ok2 {
				return f(x, y)
			}
			i.unsupported("math.%s on a symbolic float", name)
			return nil
		})
	}
	f2("Pow", math.Pow)
	f2("Mod", math.Mod)
	f2("Max", math.Max)
	f2("Min", math.Min)
	f2("Copysign", math.Copysign)
	reg("math.IsNaN", func(i *Interp, fr *frame, a []value) value {
		switch x := a[0].(type) {
		case float64:
			return math.IsNaN(x)
		case *Term:
			return i.tt.FPPred("fp.isNaN", x)
		}
		panic("IsNaN")
	})
	reg("math.IsInf", func(i *Interp, fr *frame, a []value) value {
		sign := a[1].(int64)
		switch x := a[0].(type) {
		case float64:
			return math.IsInf(x, int(sign))
		case *Term:
			inf := i.tt.FPPred("fp.isInfinite", x)
			switch {
			case sign > 0:
				return i.tt.And(inf, i.tt.FPPred("fp.isPositive", x))
			case sign < 0:
				return i.tt.And(inf, i.tt.FPPred("fp.isNegative", x))
			}
			return inf
		}
		panic("IsInf")
	})
	reg("math.Inf", func(i *Interp, fr *frame, a []value) value { return math.Inf(int(a[0].(int64))) })
	reg("math.NaN", func(i *Interp, fr *frame, a []value) value { return math.NaN() })
	reg("math.Signbit", func(i *Interp, fr *frame, a []value) value {
		switch x := a[0].(type) {
		case float64:
			return math.Signbit(x)
		case *Term:
			return i.tt.FPPred("fp.isNegative", x) // NaN sign is not observable here
		}
		panic("Signbit")
	})
	reg("math.Float64bits", func(i *Interp, fr *frame, a []value) value {
		if x, ok := a[0].(float64); ok {
			return int64(math.Float64bits(x))
		}
		// symbolic: a fresh 64-bit word b with frombits(b) = x (for a NaN any NaN pattern)
		x := a[0].(*Term)
		i.fpBitsSeq++
		b := i.tt.Var(fmt.Sprintf("fpbits!%d", i.fpBitsSeq), bvSort(64))
		i.assumeTerm(i.tt.Eq(i.tt.mk("fp.frombits", SFP64, 0, 0, 0, "", b), x))
		return b
	})
	reg("math.Float64frombits", func(i *Interp, fr *frame, a []value) value {
		if x, ok := a[0].(int64); ok {
			return math.Float64frombits(uint64(x))
		}
		return i.tt.mk("fp.frombits", SFP64, 0, 0, 0, "", a[0].(*Term))
	})
	reg("math.Float32bits", func(i *Interp, fr *frame, a []value) value {
		if x, ok := a[0].(float32); ok {
			return int64(math.Float32bits(x))
		}
		i.unsupported("math.Float32bits on a symbolic float")
		return nil
	})
	reg("math.Float32frombits", func(i *Interp, fr *frame, a []value) value {
		if x, ok := a[0].(int64); ok {
			return math.Float32frombits(uint32(x))
		}
		i.unsupported("math.Float32frombits symbolic")
		return nil
	})

	// ---------------- errors
	reg("errors.Is", func(i *Interp, fr *frame, a []value) value {
		err, target := a[0].(iface), a[1].(iface)
		for depth := 0; depth < 20; depth++ {
			if err.t == nil {
				return target.t == nil
			}
			if sameDynType(err.t, target.t) && types.Comparable(err.t) {
				if i.truth(fr, i.equals(err.t, err.v, target.v)) {
					return true
				}
			}
			uw := i.findMethod(err.t, "Unwrap")
			if uw == nil {
				return false
			}
			r := i.call(fr, 0, uw, []value{err.v})
			next, ok := r.(iface)
			if !ok {
				return false
			}
			err = next
		}
		return false
	})
	reg("errors.Unwrap", func(i *Interp, fr *frame, a []value) value {
		err := a[0].(iface)
		if err.t == nil {
			return iface{}
		}
		uw := i.findMethod(err.t, "Unwrap")
		if uw == nil {
			return iface{}
		}
		r := i.call(fr, 0, uw, []value{err.v})
		if next, ok := r.(iface); ok {
			return next
		}
		return iface{}
	})
}

// findMethod looks up a method by name in the method set of a dynamic type.
func (i *Interp) findMethod(t types.Type, name string) *ssa.Function {
	ms := i.prog.MethodSets.MethodSet(t)
	for k := 0; k < ms.Len(); k++ {
		sel := ms.At(k)
		if sel.Obj().Name() == name {
			return i.prog.MethodValue(sel)
		}
	}
	return nil
}

// toPlain renders a (possibly symbolic) string value for messages.
func toPlain(v value) string {
	switch s := v.(type) {
	case string:
		return s
	case *symstr:
		var sb strings.Builder
		for _, b := range s.b {
			if c, ok := b.(int64); ok {
				sb.WriteByte(byte(c))
			} else {
				sb.WriteByte('?')
			}
		}
		return sb.String()
	}
	return toString(v)
}
