package main

import (
	"fmt"
	"go/constant"
	"go/token"
	"go/types"
	"math"
	"os"
	"strings"
	"sync"
	"unicode/utf8"

	"golang.org/x/tools/go/ssa"
)

func constValue(c *ssa.Const) value {
	if c.Value == nil {
		return zero(c.Type())
	}
	if t, ok := c.Type().Underlying().(*types.Basic); ok {
		switch {
		case t.Info()&types.IsBoolean != 0:
			return constant.BoolVal(c.Value)
		case t.Info()&types.IsInteger != 0:
			k, _ := intInfo(t)
			if k.signed {
				return k.norm(c.Int64())
			}
			return k.norm(int64(c.Uint64()))
		case t.Kind() == types.Float32:
			return float32(c.Float64())
		case t.Info()&types.IsFloat != 0:
			return c.Float64()
		case t.Info()&types.IsComplex != 0:
			return c.Complex128()
		case t.Info()&types.IsString != 0:
			if c.Value.Kind() == constant.String {
				return constant.StringVal(c.Value)
			}
			return string(rune(c.Int64()))
		}
	}
	panic(fmt.Sprintf("constValue: %s", c))
}

// ---- helpers for scalars

func (i *Interp) intTerm(v value, k intKind) *Term {
	switch v := v.(type) {
	case *Term:
		return v
	case int64:
		return i.tt.BV(k.w, uint64(v))
	}
	panic(fmt.Sprintf("intTerm: %T", v))
}

func (i *Interp) boolTerm(v value) *Term {
	switch v := v.(type) {
	case *Term:
		return v
	case bool:
		return i.tt.Bool(v)
	}
	panic(fmt.Sprintf("boolTerm: %T", v))
}

func (i *Interp) floatTerm(v value, s Sort) *Term {
	switch v := v.(type) {
	case *Term:
		return v
	case float64:
		if s == SFP32 {
			return i.tt.FP32(float32(v))
		}
		return i.tt.FP(v)
	case float32:
		return i.tt.FP32(v)
	}
	panic(fmt.Sprintf("floatTerm: %T", v))
}

// termConst turns a constant term back into a concrete value.
func termToValue(t *Term, k intKind) value {
	if t.isConst() {
		switch {
		case t.sort == SBool:
			return t.cval == 1
		case t.sort.IsBV():
			if k.w == 0 {
				k = intKind{t.sort.Width(), false}
			}
			return k.norm(int64(t.cval))
		case t.sort == SFP64:
			return math.Float64frombits(t.cval)
		case t.sort == SFP32:
			return math.Float32frombits(uint32(t.cval))
		}
	}
	return t
}

// truth decides a branch condition.
func (i *Interp) truth(fr *frame, v value) bool {
	switch v := v.(type) {
	case bool:
		return v
	case *Term:
		return i.branch(v)
	}
	panic(fmt.Sprintf("truth: %T", v))
}

// concreteInt concretises an integer (solver-driven enumeration when symbolic).
func (i *Interp) concreteInt(fr *frame, v value) int64 {
	switch v := v.(type) {
	case nil:
		return 0
	case int64:
		return v
	case *Term:
		bits := i.choose(v)
		w := v.sort.Width()
		if w == 64 {
			return int64(bits)
		}
		// narrow symbolic integers used as sizes/indices are treated as unsigned unless
		// sign information is needed; callers with signed narrow types use concreteIntK.
		return int64(bits)
	}
	panic(fmt.Sprintf("concreteInt: %T", v))
}

func (i *Interp) concreteIntK(fr *frame, v value, k intKind) int64 {
	switch v := v.(type) {
	case int64:
		return v
	case *Term:
		return k.norm(int64(i.choose(v)))
	}
	panic(fmt.Sprintf("concreteIntK: %T", v))
}

// indexCheck validates idx against [0,n) and returns a concrete index.
func (i *Interp) indexCheck(fr *frame, idx value, n int) int {
	switch x := idx.(type) {
	case int64:
		if x < 0 || x >= int64(n) {
			i.runtimePanic(fr, "index out of range [%d] with length %d", x, n)
		}
		return int(x)
	case *Term:
		w := x.sort.Width()
		if w < 64 && uint64(n) >= uint64(1)<<uint(w) {
			// every value of the narrow index type is in range
			return int(i.choose(x))
		}
		in := i.tt.BVCmp("bvult", x, i.tt.BV(w, uint64(n)))
		if n == 0 || !i.branch(in) {
			i.runtimePanic(fr, "index out of range [symbolic] with length %d", n)
		}
		return int(i.choose(x))
	}
	panic(fmt.Sprintf("indexCheck: %T", idx))
}

// ---- strings

func strLen(v value) int {
	switch s := v.(type) {
	case string:
		return len(s)
	case *symstr:
		return len(s.b)
	}
	panic(fmt.Sprintf("strLen: %T", v))
}

func strBytes(v value) []value {
	switch s := v.(type) {
	case string:
		b := make([]value, len(s))
		for k := 0; k < len(s); k++ {
			b[k] = int64(s[k])
		}
		return b
	case *symstr:
		return s.b
	}
	panic(fmt.Sprintf("strBytes: %T", v))
}

// mkStr builds a string value from bytes (int64 or *Term BV8); the slice is not retained
// if it is fully concrete.
func mkStr(b []value) value {
	allc := true
	for _, x := range b {
		if _, ok := x.(int64); !ok {
			allc = false
			break
		}
	}
	if allc {
		bs := make([]byte, len(b))
		for k, x := range b {
			bs[k] = byte(x.(int64))
		}
		return string(bs)
	}
	cp := make([]value, len(b))
	copy(cp, b)
	return &symstr{cp}
}

func (i *Interp) byteTerm(v value) *Term {
	switch v := v.(type) {
	case *Term:
		return v
	case int64:
		return i.tt.BV(8, uint64(v))
	}
	panic(fmt.Sprintf("byteTerm: %T", v))
}

// strEq returns bool or *Term.
func (i *Interp) strEq(x, y value) value {
	if xs, ok := x.(string); ok {
		if ys, ok := y.(string); ok {
			return xs == ys
		}
	}
	if strLen(x) != strLen(y) {
		return false
	}
	xb, yb := strBytes(x), strBytes(y)
	acc := i.tt.Bool(true)
	for k := range xb {
		xc, xok := xb[k].(int64)
		yc, yok := yb[k].(int64)
		if xok && yok {
			if xc != yc {
				return false
			}
			continue
		}
		acc = i.tt.And(acc, i.tt.Eq(i.byteTerm(xb[k]), i.byteTerm(yb[k])))
	}
	return termToValue(acc, intKind{})
}

// strLess returns x < y (bool or *Term).
func (i *Interp) strLess(x, y value, orEq bool) value {
	if xs, ok := x.(string); ok {
		if ys, ok := y.(string); ok {
			if orEq {
				return xs <= ys
			}
			return xs < ys
		}
	}
	xb, yb := strBytes(x), strBytes(y)
	n := len(xb)
	if len(yb) < n {
		n = len(yb)
	}
	// tail: all common bytes equal
	var res *Term
	if len(xb) < len(yb) || (orEq && len(xb) == len(yb)) {
		res = i.tt.Bool(true)
	} else {
		res = i.tt.Bool(false)
	}
	for k := n - 1; k >= 0; k-- {
		a, b := i.byteTerm(xb[k]), i.byteTerm(yb[k])
		lt := i.tt.BVCmp("bvult", a, b)
		eq := i.tt.Eq(a, b)
		res = i.tt.Or(lt, i.tt.And(eq, res))
	}
	return termToValue(res, intKind{})
}

func strConcat(x, y value) value {
	if xs, ok := x.(string); ok {
		if ys, ok := y.(string); ok {
			return xs + ys
		}
	}
	xb, yb := strBytes(x), strBytes(y)
	b := make([]value, 0, len(xb)+len(yb))
	b = append(b, xb...)
	b = append(b, yb...)
	return mkStr(b)
}

// asciiByte makes sure the (possibly symbolic) byte is < 0x80 on this path.
func (i *Interp) requireASCII(b value, what string) {
	switch b := b.(type) {
	case int64:
		if b >= 0x80 {
			i.unsupported("non-ASCII byte in symbolic string (%s)", what)
		}
	case *Term:
		w := b.sort.Width()
		if !i.branch(i.tt.BVCmp("bvult", b, i.tt.BV(w, 0x80))) {
			i.unsupported("non-ASCII symbolic character (%s)", what)
		}
	}
}

// ---- binary operators

func (i *Interp) binop(fr *frame, op token.Token, tx, ty types.Type, x, y value) value {
	// strings
	if isStringType(tx) {
		switch op {
		case token.ADD:
			return strConcat(x, y)
		case token.EQL:
			return i.strEq(x, y)
		case token.NEQ:
			return i.not(i.strEq(x, y))
		case token.LSS:
			return i.strLess(x, y, false)
		case token.LEQ:
			return i.strLess(x, y, true)
		case token.GTR:
			return i.strLess(y, x, false)
		case token.GEQ:
			return i.strLess(y, x, true)
		}
	}
	if k, ok := intInfo(tx); ok {
		xs, xsym := x.(*Term)
		ys, ysym := y.(*Term)
		_, _ = xs, ys
		if op == token.SHL || op == token.SHR {
			return i.shift(fr, op, k, ty, x, y)
		}
		if !xsym && !ysym {
			return i.intBinop(fr, op, k, x.(int64), y.(int64))
		}
		return i.symIntBinop(fr, op, k, i.intTerm(x, k), i.intTerm(y, k))
	}
	if s, ok := isFloatType(tx); ok {
		_, xsym := x.(*Term)
		_, ysym := y.(*Term)
		if !xsym && !ysym {
			return floatBinop(op, x, y)
		}
		return i.symFloatBinop(op, i.floatTerm(x, s), i.floatTerm(y, s))
	}
	switch op {
	case token.EQL:
		return i.eqnil(tx, x, y)
	case token.NEQ:
		return i.not(i.eqnil(tx, x, y))
	}
	if b := basicOf(tx); b != nil && b.Info()&types.IsBoolean != 0 {
		// bool &,|,^ are not Go operators on bool except ==/!= handled above
	}
	if b := basicOf(tx); b != nil && b.Info()&types.IsComplex != 0 {
		xc, yc := x.(complex128), y.(complex128)
		switch op {
		case token.ADD:
			return xc + yc
		case token.SUB:
			return xc - yc
		case token.MUL:
			return xc * yc
		case token.QUO:
			return xc / yc
		}
	}
	panic(fmt.Sprintf("invalid binary op: %T %s %T (type %v)", x, op, y, tx))
}

func (i *Interp) not(v value) value {
	switch v := v.(type) {
	case bool:
		return !v
	case *Term:
		return termToValue(i.tt.Not(v), intKind{})
	}
	panic("not: bad operand")
}

func (i *Interp) intBinop(fr *frame, op token.Token, k intKind, x, y int64) value {
	u64 := !k.signed && k.w == 64
	switch op {
	case token.ADD:
		return k.norm(x + y)
	case token.SUB:
		return k.norm(x - y)
	case token.MUL:
		return k.norm(x * y)
	case token.QUO:
		if y == 0 {
			i.runtimePanic(fr, "integer divide by zero")
		}
		if u64 {
			return int64(uint64(x) / uint64(y))
		}
		if y == -1 {
			return k.norm(-x)
		}
		return k.norm(x / y)
	case token.REM:
		if y == 0 {
			i.runtimePanic(fr, "integer divide by zero")
		}
		if u64 {
			return int64(uint64(x) % uint64(y))
		}
		if y == -1 {
			return int64(0)
		}
		return k.norm(x % y)
	case token.AND:
		return x & y
	case token.OR:
		return x | y
	case token.XOR:
		return k.norm(x ^ y)
	case token.AND_NOT:
		return x &^ y
	case token.EQL:
		return x == y
	case token.NEQ:
		return x != y
	case token.LSS:
		if u64 {
			return uint64(x) < uint64(y)
		}
		return x < y
	case token.LEQ:
		if u64 {
			return uint64(x) <= uint64(y)
		}
		return x <= y
	case token.GTR:
		if u64 {
			return uint64(x) > uint64(y)
		}
		return x > y
	case token.GEQ:
		if u64 {
			return uint64(x) >= uint64(y)
		}
		return x >= y
	}
	panic(fmt.Sprintf("invalid integer op %s", op))
}

func (i *Interp) symIntBinop(fr *frame, op token.Token, k intKind, x, y *Term) value {
	tt := i.tt
	var r *Term
	switch op {
	case token.ADD:
		r = tt.BVBin("bvadd", x, y)
	case token.SUB:
		r = tt.BVBin("bvsub", x, y)
	case token.MUL:
		r = tt.BVBin("bvmul", x, y)
	case token.QUO, token.REM:
		if i.truth(fr, termToValue(tt.Eq(y, tt.BV(k.w, 0)), intKind{})) {
			i.runtimePanic(fr, "integer divide by zero")
		}
		switch {
		case op == token.QUO && k.signed:
			r = tt.BVBin("bvsdiv", x, y)
		case op == token.QUO:
			r = tt.BVBin("bvudiv", x, y)
		case k.signed:
			r = tt.BVBin("bvsrem", x, y)
		default:
			r = tt.BVBin("bvurem", x, y)
		}
	case token.AND:
		r = tt.BVBin("bvand", x, y)
	case token.OR:
		r = tt.BVBin("bvor", x, y)
	case token.XOR:
		r = tt.BVBin("bvxor", x, y)
	case token.AND_NOT:
		r = tt.BVBin("bvand", x, tt.BVUn("bvnot", y))
	case token.EQL:
		r = tt.Eq(x, y)
	case token.NEQ:
		r = tt.Not(tt.Eq(x, y))
	case token.LSS, token.LEQ, token.GTR, token.GEQ:
		a, b := x, y
		if op == token.GTR || op == token.GEQ {
			a, b = y, x
		}
		strict := op == token.LSS || op == token.GTR
		var name string
		switch {
		case k.signed && strict:
			name = "bvslt"
		case k.signed:
			name = "bvsle"
		case strict:
			name = "bvult"
		default:
			name = "bvule"
		}
		r = tt.BVCmp(name, a, b)
	default:
		panic(fmt.Sprintf("invalid symbolic integer op %s", op))
	}
	return termToValue(r, k)
}

func (i *Interp) shift(fr *frame, op token.Token, k intKind, ty types.Type, x, y value) value {
	ky, _ := intInfo(ty)
	xt, xsym := x.(*Term)
	yt, ysym := y.(*Term)
	if !ysym {
		cnt := y.(int64)
		if ky.signed && cnt < 0 {
			i.runtimePanic(fr, "negative shift amount")
		}
		ucnt := uint64(cnt)
		if !xsym {
			xv := x.(int64)
			if op == token.SHL {
				if ucnt >= 64 {
					return int64(0)
				}
				return k.norm(xv << ucnt)
			}
			if k.signed {
				if ucnt >= 64 {
					ucnt = 63
				}
				return xv >> ucnt
			}
			if ucnt >= 64 {
				return int64(0)
			}
			return k.norm(int64(uint64(xv) >> ucnt))
		}
		c := ucnt
		if c > uint64(k.w) {
			c = uint64(k.w)
		}
		return i.symShift(op, k, xt, i.tt.BV(k.w, c))
	}
	// symbolic count
	if ky.signed {
		if i.branch(i.tt.BVCmp("bvslt", yt, i.tt.BV(ky.w, 0))) {
			i.runtimePanic(fr, "negative shift amount")
		}
	}
	// bring the count to x's width, saturating
	var cnt *Term
	switch {
	case ky.w == k.w:
		cnt = yt
	case ky.w < k.w:
		cnt = i.tt.ZExt(k.w, yt)
	default:
		big := i.tt.BVCmp("bvule", i.tt.BV(ky.w, uint64(k.w)), yt)
		cnt = i.tt.Ite(big, i.tt.BV(k.w, uint64(k.w)), i.tt.Extract(k.w-1, 0, yt))
	}
	return i.symShift(op, k, i.intTerm(x, k), cnt)
}

func (i *Interp) symShift(op token.Token, k intKind, x, cnt *Term) value {
	var r *Term
	switch {
	case op == token.SHL:
		r = i.tt.BVBin("bvshl", x, cnt)
	case k.signed:
		r = i.tt.BVBin("bvashr", x, cnt)
	default:
		r = i.tt.BVBin("bvlshr", x, cnt)
	}
	return termToValue(r, k)
}

func floatBinop(op token.Token, x, y value) value {
	if xf, ok := x.(float32); ok {
		yf := y.(float32)
		switch op {
		case token.ADD:
			return xf + yf
		case token.SUB:
			return xf - yf
		case token.MUL:
			return xf * yf
		case token.QUO:
			return xf / yf
		case token.EQL:
			return xf == yf
		case token.NEQ:
			return xf != yf
		case token.LSS:
			return xf < yf
		case token.LEQ:
			return xf <= yf
		case token.GTR:
			return xf > yf
		case token.GEQ:
			return xf >= yf
		}
	}
	xf, yf := x.(float64), y.(float64)
	switch op {
	case token.ADD:
		return xf + yf
	case token.SUB:
		return xf - yf
	case token.MUL:
		return xf * yf
	case token.QUO:
		return xf / yf
	case token.EQL:
		return xf == yf
	case token.NEQ:
		return xf != yf
	case token.LSS:
		return xf < yf
	case token.LEQ:
		return xf <= yf
	case token.GTR:
		return xf > yf
	case token.GEQ:
		return xf >= yf
	}
	panic(fmt.Sprintf("invalid float op %s", op))
}

func (i *Interp) symFloatBinop(op token.Token, x, y *Term) value {
	tt := i.tt
	switch op {
	case token.ADD:
		return tt.FPBin("fp.add", x, y)
	case token.SUB:
		return tt.FPBin("fp.sub", x, y)
	case token.MUL:
		return tt.FPBin("fp.mul", x, y)
	case token.QUO:
		return tt.FPBin("fp.div", x, y)
	case token.EQL:
		return tt.FPCmp("fp.eq", x, y)
	case token.NEQ:
		return tt.Not(tt.FPCmp("fp.eq", x, y))
	case token.LSS:
		return tt.FPCmp("fp.lt", x, y)
	case token.LEQ:
		return tt.FPCmp("fp.leq", x, y)
	case token.GTR:
		return tt.FPCmp("fp.gt", x, y)
	case token.GEQ:
		return tt.FPCmp("fp.geq", x, y)
	}
	panic(fmt.Sprintf("invalid symbolic float op %s", op))
}

// eqnil: x == y for type t (bool or *Term).
func (i *Interp) eqnil(t types.Type, x, y value) value {
	switch t.Underlying().(type) {
	case *types.Map:
		return (x.(*omap) != nil) == (y.(*omap) != nil)
	case *types.Signature:
		return !isNilFunc(x) == !isNilFunc(y)
	case *types.Slice:
		return (x.([]value) != nil) == (y.([]value) != nil)
	}
	return i.equals(t, x, y)
}

func isNilFunc(x value) bool {
	switch x := x.(type) {
	case *ssa.Function:
		return x == nil
	case *closure:
		return x == nil
	case *extFunc:
		return x == nil
	case *ssa.Builtin:
		return false
	}
	panic(fmt.Sprintf("isNilFunc: %T", x))
}

func (i *Interp) and(a, b value) value {
	if ab, ok := a.(bool); ok {
		if !ab {
			return false
		}
		return b
	}
	if bb, ok := b.(bool); ok {
		if !bb {
			return false
		}
		return a
	}
	return termToValue(i.tt.And(a.(*Term), b.(*Term)), intKind{})
}

func (i *Interp) or(a, b value) value {
	if ab, ok := a.(bool); ok {
		if ab {
			return true
		}
		return b
	}
	if bb, ok := b.(bool); ok {
		if bb {
			return true
		}
		return a
	}
	return termToValue(i.tt.Or(a.(*Term), b.(*Term)), intKind{})
}

// equals implements Go's == for comparable values; the result is bool or *Term.
func (i *Interp) equals(t types.Type, x, y value) value {
	switch x := x.(type) {
	case bool:
		switch y := y.(type) {
		case bool:
			return x == y
		case *Term:
			if x {
				return y
			}
			return i.not(y)
		}
	case int64:
		switch y := y.(type) {
		case int64:
			return x == y
		case *Term:
			return termToValue(i.tt.Eq(i.tt.BV(y.sort.Width(), uint64(x)), y), intKind{})
		}
	case float64:
		switch y := y.(type) {
		case float64:
			return x == y
		case *Term:
			return i.tt.FPCmp("fp.eq", i.tt.FP(x), y)
		}
	case float32:
		switch y := y.(type) {
		case float32:
			return x == y
		case *Term:
			return i.tt.FPCmp("fp.eq", i.tt.FP32(x), y)
		}
	case complex128:
		return x == y.(complex128)
	case *Term:
		switch x.sort {
		case SBool:
			return termToValue(i.tt.Eq(x, i.boolTerm(y)), intKind{})
		case SFP64, SFP32:
			return i.tt.FPCmp("fp.eq", x, i.floatTerm(y, x.sort))
		default:
			return termToValue(i.tt.Eq(x, i.intTerm(y, intKind{x.sort.Width(), false})), intKind{})
		}
	case string, *symstr:
		return i.strEq(x, y)
	case *value:
		return x == y.(*value)
	case *channel:
		return x == y.(*channel)
	case upointer:
		yp := y.(upointer)
		if x.p == nil || yp.p == nil {
			return x.p == nil && yp.p == nil
		}
		return i.equals(nil, x.p, yp.p)
	case structure:
		ys := y.(structure)
		var acc value = true
		var st *types.Struct
		if t != nil {
			st, _ = t.Underlying().(*types.Struct)
		}
		for k := range x {
			var ft types.Type
			if st != nil {
				if st.Field(k).Name() == "_" {
					continue
				}
				ft = st.Field(k).Type()
			}
			acc = i.and(acc, i.equals(ft, x[k], ys[k]))
			if b, ok := acc.(bool); ok && !b {
				return false
			}
		}
		return acc
	case array:
		ya := y.(array)
		var acc value = true
		var et types.Type
		if t != nil {
			if at, ok := t.Underlying().(*types.Array); ok {
				et = at.Elem()
			}
		}
		for k := range x {
			acc = i.and(acc, i.equals(et, x[k], ya[k]))
			if b, ok := acc.(bool); ok && !b {
				return false
			}
		}
		return acc
	case iface:
		yi := y.(iface)
		if x.t == nil || yi.t == nil {
			return x.t == nil && yi.t == nil
		}
		if !sameDynType(x.t, yi.t) {
			return false
		}
		if _, ok := x.t.(*extType); ok {
			return x.v == yi.v
		}
		if !types.Comparable(x.t) {
			panic(targetPanic{v: iface{i.runtimeErrorType, "comparing uncomparable type " + x.t.String()}, runtime: true, msg: "comparing uncomparable type " + x.t.String()})
		}
		return i.equals(x.t, x.v, yi.v)
	case rtype:
		return types.Identical(x.t, y.(rtype).t)
	case *omap:
		return x == y.(*omap)
	case *ssa.Function, *closure, *extFunc:
		return isNilFunc(x) && isNilFunc(y)
	}
	panic(fmt.Sprintf("comparing uncomparable values %T and %T (type %v)", x, y, t))
}

func sameDynType(x, y types.Type) bool {
	if x == y {
		return true
	}
	_, xe := x.(*extType)
	_, ye := y.(*extType)
	if xe || ye {
		return false
	}
	return types.Identical(x, y)
}

// ---- unary operators

func (i *Interp) unop(fr *frame, instr *ssa.UnOp, x value) value {
	switch instr.Op {
	case token.ARROW:
		return i.chanRecv(fr, x.(*channel), instr.CommaOk)
	case token.SUB:
		switch x := x.(type) {
		case int64:
			k, _ := intInfo(instr.X.Type())
			return k.norm(-x)
		case float64:
			return -x
		case float32:
			return -x
		case complex128:
			return -x
		case *Term:
			if x.sort.IsBV() {
				k, _ := intInfo(instr.X.Type())
				return termToValue(i.tt.BVUn("bvneg", x), k)
			}
			return i.tt.FPUn("fp.neg", x)
		}
	case token.MUL:
		if ref, ok := x.(*symref); ok {
			return ref.v
		}
		p := x.(*value)
		if p == nil {
			i.runtimePanic(fr, "invalid memory address or nil pointer dereference")
		}
		return copyVal(*p)
	case token.NOT:
		return i.not(x)
	case token.XOR:
		switch x := x.(type) {
		case int64:
			k, _ := intInfo(instr.X.Type())
			return k.norm(^x)
		case *Term:
			k, _ := intInfo(instr.X.Type())
			return termToValue(i.tt.BVUn("bvnot", x), k)
		}
	}
	panic(fmt.Sprintf("invalid unary op %s %T", instr.Op, x))
}

// ---- type assertions

func (i *Interp) typeAssert(fr *frame, instr *ssa.TypeAssert, itf iface) value {
	var v value
	err := ""
	if itf.t == nil {
		err = fmt.Sprintf("interface conversion: interface is nil, not %s", instr.AssertedType)
	} else if idst, ok := instr.AssertedType.Underlying().(*types.Interface); ok {
		v = itf
		if et, isExt := itf.t.(*extType); isExt {
			for k := 0; k < idst.NumMethods(); k++ {
				if et.method(idst.Method(k).Name()) == nil {
					err = fmt.Sprintf("interface conversion: %s is not %v: missing method %s", et.name, instr.AssertedType, idst.Method(k).Name())
				}
			}
		} else if meth, _ := types.MissingMethod(itf.t, idst, true); meth != nil {
			err = fmt.Sprintf("interface conversion: %v is not %v: missing method %s", itf.t, instr.AssertedType, meth.Name())
		}
	} else if sameDynType(itf.t, instr.AssertedType) {
		v = copyVal(itf.v)
	} else {
		q := func(p *types.Package) string { return p.Name() }
		err = fmt.Sprintf("interface conversion: %s is %s, not %s", types.TypeString(instr.X.Type(), q), types.TypeString(itf.t, q), types.TypeString(instr.AssertedType, q))
		err = strings.ReplaceAll(err, "interface{}", "interface {}")
	}
	if err != "" {
		if !instr.CommaOk {
			i.runtimePanic(fr, "%s", err)
		}
		return tuple{zero(instr.AssertedType), false}
	}
	if instr.CommaOk {
		return tuple{v, true}
	}
	return v
}

// ---- slicing

func (i *Interp) slice(fr *frame, instr *ssa.Slice, x, lo, hi, max value) value {
	var Len, Cap int
	switch x := x.(type) {
	case string:
		Len, Cap = len(x), len(x)
	case *symstr:
		Len, Cap = len(x.b), len(x.b)
	case []value:
		Len, Cap = len(x), cap(x)
	case *value:
		if x == nil {
			i.runtimePanic(fr, "invalid memory address or nil pointer dereference")
		}
		a := (*x).(array)
		Len, Cap = len(a), len(a)
	default:
		panic(fmt.Sprintf("slice: unexpected X type: %T", x))
	}
	// symbolic bounds: check validity symbolically first, then enumerate
	bound := func(v value, def int) (int64, *Term) {
		switch v := v.(type) {
		case nil:
			return int64(def), nil
		case int64:
			return v, nil
		case *Term:
			return 0, v
		}
		panic("slice bound")
	}
	l, lt := bound(lo, 0)
	h, ht := bound(hi, Len)
	m, mt := bound(max, Cap)
	if lt != nil || ht != nil || mt != nil {
		tt := i.tt
		tm := func(c int64, t *Term) *Term {
			if t != nil {
				if t.sort.Width() != 64 {
					return tt.ZExt(64, t)
				}
				return t
			}
			return tt.BV(64, uint64(c))
		}
		L, H, M := tm(l, lt), tm(h, ht), tm(m, mt)
		ok := tt.And(tt.BVCmp("bvsle", tt.BV(64, 0), L), tt.And(tt.BVCmp("bvsle", L, H), tt.And(tt.BVCmp("bvsle", H, M), tt.BVCmp("bvsle", M, tt.BV(64, uint64(Cap))))))
		if !i.truth(fr, termToValue(ok, intKind{})) {
			i.runtimePanic(fr, "slice bounds out of range [symbolic] with capacity %d", Cap)
		}
		if lt != nil {
			l = int64(i.choose(L))
		}
		if ht != nil {
			h = int64(i.choose(H))
		}
		if mt != nil {
			m = int64(i.choose(M))
		}
	}
	if max == nil {
		m = int64(Cap)
	}
	if l < 0 || l > h || h > m || m > int64(Cap) {
		if _, isStr := x.(string); isStr || true {
			i.runtimePanic(fr, "slice bounds out of range [%d:%d] with capacity %d", l, h, Cap)
		}
	}
	switch x := x.(type) {
	case string:
		return x[l:h]
	case *symstr:
		return mkStr(x.b[l:h])
	case []value:
		if x == nil {
			return []value(nil)
		}
		return x[l:h:m]
	case *value:
		a := (*x).(array)
		return []value(a)[l:h:m]
	}
	panic("unreachable")
}

func (i *Interp) sliceToArrayPointer(fr *frame, t_dst, t_src types.Type, x value) value {
	if ptr, ok := t_dst.Underlying().(*types.Pointer); ok {
		if arr, ok := ptr.Elem().Underlying().(*types.Array); ok {
			x := x.([]value)
			if arr.Len() > int64(len(x)) {
				i.runtimePanic(fr, "cannot convert slice with length %d to array or pointer to array with length %d", len(x), arr.Len())
			}
			if x == nil {
				return zero(t_dst)
			}
			v := value(array(x[:arr.Len()]))
			return &v
		}
	}
	panic(fmt.Sprintf("unsupported conversion: %s  -> %s, dynamic type %T", t_src, t_dst, x))
}

// ---- conversions

func (i *Interp) conv(fr *frame, t_dst, t_src types.Type, x value) value {
	ut_src := t_src.Underlying()
	ut_dst := t_dst.Underlying()

	switch ut_src := ut_src.(type) {
	case *types.Pointer:
		if b, ok := ut_dst.(*types.Basic); ok && b.Kind() == types.UnsafePointer {
			return upointer{x}
		}
		if _, ok := ut_dst.(*types.Pointer); ok {
			return x
		}
	case *types.Slice:
		if _, ok := ut_dst.(*types.Slice); ok {
			return x
		}
		eb := basicOf(ut_src.Elem())
		if eb != nil && isStringType(t_dst) {
			xs := x.([]value)
			switch eb.Kind() {
			case types.Byte:
				return mkStr(xs)
			case types.Rune:
				return i.runesToString(xs)
			}
		}
		if at, ok := ut_dst.(*types.Array); ok {
			xs := x.([]value)
			if at.Len() > int64(len(xs)) {
				i.runtimePanic(fr, "cannot convert slice with length %d to array or pointer to array with length %d", len(xs), at.Len())
			}
			a := make(array, at.Len())
			for k := range a {
				a[k] = copyVal(xs[k])
			}
			return a
		}
	case *types.Basic:
		dst := basicOf(t_dst)
		if ut_src.Kind() == types.UnsafePointer {
			if dst != nil && dst.Kind() == types.UnsafePointer {
				return x
			}
			if _, ok := ut_dst.(*types.Pointer); ok {
				up := x.(upointer)
				if up.p == nil {
					return zero(t_dst)
				}
				if p, ok := up.p.(*value); ok {
					return p
				}
				i.unsupported("unsafe.Pointer -> %v of %T", t_dst, up.p)
			}
			if dst != nil && dst.Kind() == types.Uintptr {
				up := x.(upointer)
				if up.p == nil {
					return int64(0)
				}
				if p, ok := up.p.(*value); ok {
					return ptrToInt(p)
				}
				i.unsupported("unsafe.Pointer -> uintptr")
			}
		}
		if isStringType(t_src) {
			switch d := ut_dst.(type) {
			case *types.Slice:
				switch basicOf(d.Elem()).Kind() {
				case types.Rune:
					return i.stringToRunes(x)
				case types.Byte:
					b := strBytes(x)
					res := make([]value, len(b))
					copy(res, b)
					return res
				}
			case *types.Basic:
				if d.Info()&types.IsString != 0 {
					return x
				}
			}
		}
		if ks, ok := intInfo(t_src); ok {
			if dst == nil {
				break
			}
			if dst.Info()&types.IsString != 0 {
				// integer -> string
				switch x := x.(type) {
				case int64:
					return string(rune(x))
				case *Term:
					i.requireASCII(x, "string(rune)")
					return &symstr{[]value{termToValue(i.tt.Extract(7, 0, x), intKind{8, false})}}
				}
			}
			if kd, ok := intInfo(t_dst); ok {
				switch x := x.(type) {
				case int64:
					return kd.norm(x)
				case *Term:
					var r *Term
					switch {
					case kd.w > ks.w && ks.signed:
						r = i.tt.SExt(kd.w, x)
					case kd.w > ks.w:
						r = i.tt.ZExt(kd.w, x)
					case kd.w < ks.w:
						r = i.tt.Extract(kd.w-1, 0, x)
					default:
						r = x
					}
					return termToValue(r, kd)
				}
			}
			if fs, ok := isFloatType(t_dst); ok {
				switch x := x.(type) {
				case int64:
					var f float64
					if !ks.signed && ks.w == 64 {
						f = float64(uint64(x))
					} else {
						f = float64(x)
					}
					if fs == SFP32 {
						return float32(f)
					}
					return f
				case *Term:
					return i.tt.IntToFP(x, ks.signed, fs)
				}
			}
			if dst.Info()&types.IsComplex != 0 {
				return complex(float64(x.(int64)), 0)
			}
			if dst.Kind() == types.UnsafePointer {
				if v, ok := x.(int64); ok && v == 0 {
					return upointer{}
				}
				i.unsupported("uintptr -> unsafe.Pointer")
			}
		}
		if fsrc, ok := isFloatType(t_src); ok {
			_ = fsrc
			if dst == nil {
				break
			}
			if kd, ok := intInfo(t_dst); ok {
				switch x := x.(type) {
				case float64:
					return floatToInt(x, kd)
				case float32:
					return floatToInt(float64(x), kd)
				case *Term:
					return termToValue(i.tt.FPToInt(x, kd.signed, kd.w), kd)
				}
			}
			if fd, ok := isFloatType(t_dst); ok {
				switch x := x.(type) {
				case float64:
					if fd == SFP32 {
						return float32(x)
					}
					return x
				case float32:
					if fd == SFP64 {
						return float64(x)
					}
					return x
				case *Term:
					return i.tt.FPToFP(x, fd)
				}
			}
		}
		if ut_src.Info()&types.IsComplex != 0 {
			return x
		}
		if ut_src.Info()&types.IsBoolean != 0 {
			return x
		}
	}
	panic(fmt.Sprintf("unsupported conversion: %s  -> %s, dynamic type %T", t_src, t_dst, x))
}

var ptrIDs = map[*value]int64{}

var ptrIDsMu sync.Mutex

func ptrToInt(p *value) int64 {
	ptrIDsMu.Lock()
	defer ptrIDsMu.Unlock()
	if id, ok := ptrIDs[p]; ok {
		return id
	}
	id := int64(0xc000000000 + 64*len(ptrIDs))
	ptrIDs[p] = id
	return id
}

func floatToInt(f float64, k intKind) int64 {
	if !k.signed && k.w == 64 {
		if f >= 9223372036854775808.0 {
			return int64(uint64(f))
		}
		return int64(f)
	}
	if f != f {
		return k.norm(math.MinInt64)
	}
	if f >= 9223372036854775808.0 || f < -9223372036854775808.0 {
		return k.norm(math.MinInt64)
	}
	return k.norm(int64(f))
}

func (i *Interp) runesToString(rs []value) value {
	allc := true
	for _, r := range rs {
		if _, ok := r.(int64); !ok {
			allc = false
		}
	}
	if allc {
		var sb strings.Builder
		for _, r := range rs {
			sb.WriteRune(rune(r.(int64)))
		}
		return sb.String()
	}
	var b []value
	for _, r := range rs {
		switch r := r.(type) {
		case int64:
			for _, c := range []byte(string(rune(r))) {
				b = append(b, int64(c))
			}
		case *Term:
			i.requireASCII(r, "string([]rune)")
			b = append(b, termToValue(i.tt.Extract(7, 0, r), intKind{8, false}))
		}
	}
	return mkStr(b)
}

// decodeRuneAt decodes one rune of a possibly symbolic string at byte offset k.
func (i *Interp) decodeRuneAt(b []value, k int) (value, int) {
	switch c := b[k].(type) {
	case int64:
		if c < 0x80 {
			return c, 1
		}
		// multi-byte: needs concrete continuation bytes
		var buf []byte
		for j := k; j < len(b) && j < k+4; j++ {
			cj, ok := b[j].(int64)
			if !ok {
				break
			}
			buf = append(buf, byte(cj))
		}
		r, n := utf8.DecodeRune(buf)
		if r == utf8.RuneError && n <= 1 && len(buf) < 4 && k+len(buf) < len(b) {
			i.unsupported("non-ASCII sequence with symbolic continuation bytes")
		}
		return int64(r), n
	case *Term:
		i.requireASCII(c, "range/[]rune over symbolic string")
		return termToValue(i.tt.ZExt(32, c), intKind{32, true}), 1
	}
	panic("decodeRuneAt")
}

func (i *Interp) stringToRunes(x value) value {
	if s, ok := x.(string); ok {
		res := make([]value, 0, len(s))
		for _, r := range s {
			res = append(res, int64(r))
		}
		return res
	}
	b := strBytes(x)
	var res []value
	for k := 0; k < len(b); {
		r, n := i.decodeRuneAt(b, k)
		res = append(res, r)
		k += n
	}
	if res == nil {
		res = []value{}
	}
	return res
}

// ---- builtins

func (i *Interp) callBuiltin(caller *frame, callpos token.Pos, fn *ssa.Builtin, args []value) value {
	switch fn.Name() {
	case "append":
		if len(args) == 1 {
			return args[0]
		}
		dst := args[0].([]value)
		var src []value
		switch s := args[1].(type) {
		case string, *symstr:
			src = strBytes(s)
		case []value:
			src = s
		}
		return i.appendSlice(dst, src)

	case "copy":
		dst := args[0].([]value)
		var src []value
		switch s := args[1].(type) {
		case string, *symstr:
			src = strBytes(s)
		case []value:
			src = s
		}
		n := len(dst)
		if len(src) < n {
			n = len(src)
		}
		if n > 0 && &dst[0] != &src[0] {
			// handle overlap like memmove
			tmp := make([]value, n)
			for k := 0; k < n; k++ {
				tmp[k] = copyVal(src[k])
			}
			for k := 0; k < n; k++ {
				i.setCell(&dst[k], tmp[k])
			}
		}
		return int64(n)

	case "close":
		i.chanClose(caller, args[0].(*channel))
		return nil

	case "delete":
		m := args[0].(*omap)
		if m != nil {
			i.mapDelete(caller, m, args[1])
		}
		return nil

	case "clear":
		switch x := args[0].(type) {
		case *omap:
			if x != nil {
				for _, e := range x.entries {
					if !e.deleted {
						i.mapDeleteEntry(x, e)
					}
				}
			}
		case []value:
			// element type unknown here: re-zero by shape
			for k := range x {
				i.setCell(&x[k], zeroLike(x[k]))
			}
		}
		return nil

	case "print", "println":
		ln := fn.Name() == "println"
		var buf strings.Builder
		for k, arg := range args {
			if k > 0 && ln {
				buf.WriteRune(' ')
			}
			buf.WriteString(toString(arg))
		}
		if ln {
			buf.WriteRune('\n')
		}
		if i.cfg.Verbose {
			os.Stderr.WriteString(buf.String())
		}
		return nil

	case "len":
		switch x := args[0].(type) {
		case string:
			return int64(len(x))
		case *symstr:
			return int64(len(x.b))
		case array:
			return int64(len(x))
		case *value:
			if x == nil {
				// len of nil *array is the array length; static type needed
				sig := fn.Type().(*types.Signature)
				at := deref(sig.Params().At(0).Type()).Underlying().(*types.Array)
				return at.Len()
			}
			return int64(len((*x).(array)))
		case []value:
			return int64(len(x))
		case *omap:
			if x == nil {
				return int64(0)
			}
			return int64(x.n)
		case *channel:
			if x == nil {
				return int64(0)
			}
			return int64(len(x.buf))
		}
		panic(fmt.Sprintf("len: illegal operand: %T", args[0]))

	case "cap":
		switch x := args[0].(type) {
		case array:
			return int64(len(x))
		case *value:
			return int64(len((*x).(array)))
		case []value:
			return int64(cap(x))
		case *channel:
			if x == nil {
				return int64(0)
			}
			return int64(x.cap)
		}
		panic(fmt.Sprintf("cap: illegal operand: %T", args[0]))

	case "min", "max":
		sig := fn.Type().(*types.Signature)
		t := sig.Params().At(0).Type()
		x := args[0]
		for _, y := range args[1:] {
			var c value
			if fn.Name() == "min" {
				c = i.binop(caller, token.LSS, t, t, y, x)
			} else {
				c = i.binop(caller, token.GTR, t, t, y, x)
			}
			switch c := c.(type) {
			case bool:
				if c {
					x = y
				}
			case *Term:
				if isStringType(t) {
					if i.branch(c) {
						x = y
					}
				} else if k, ok := intInfo(t); ok {
					x = i.tt.Ite(c, i.intTerm(y, k), i.intTerm(x, k))
				} else if s, ok := isFloatType(t); ok {
					x = i.tt.Ite(c, i.floatTerm(y, s), i.floatTerm(x, s))
				}
			}
		}
		return x

	case "real":
		return real(args[0].(complex128))
	case "imag":
		return imag(args[0].(complex128))
	case "complex":
		switch f := args[0].(type) {
		case float64:
			return complex(f, args[1].(float64))
		case float32:
			return complex(float64(f), float64(args[1].(float32)))
		}

	case "panic":
		panic(targetPanic{v: args[0]})

	case "recover":
		return i.doRecover(caller)

	case "ssa:wrapnilchk":
		recv := args[0]
		if recv.(*value) == nil {
			i.runtimePanic(caller, "value method %s.%s called using nil *%s pointer", toString(args[1]), toString(args[2]), toString(args[1]))
		}
		return recv

	case "ssa:deferstack":
		return &caller.defers

	case "String": // unsafe.String(ptr, len)
		n := i.concreteInt(caller, args[1])
		switch p := args[0].(type) {
		case slicedata:
			if p.str != nil {
				return mkStr(strBytes(p.str)[:n])
			}
			return mkStr(p.s[:n])
		case *value:
			if n == 0 {
				return ""
			}
			if caller != nil && caller.lastIAptr == p && int(n) <= len(caller.lastIAslice) {
				return mkStr(caller.lastIAslice[:n])
			}
		}
		i.unsupported("unsafe.String on %T", args[0])
	case "StringData":
		return slicedata{str: args[0]}
	case "SliceData":
		return slicedata{s: args[0].([]value)}
	case "Slice": // unsafe.Slice(ptr, len)
		n := i.concreteInt(caller, args[1])
		switch p := args[0].(type) {
		case slicedata:
			if p.str != nil {
				b := strBytes(p.str)
				cp := make([]value, len(b))
				copy(cp, b)
				return cp[:n]
			}
			return p.s[:n]
		case *value:
			if caller != nil && caller.lastIAptr == p && int(n) <= cap(caller.lastIAslice) {
				return caller.lastIAslice[:n]
			}
		}
		i.unsupported("unsafe.Slice on %T", args[0])
	}
	i.unsupported("built-in %s", fn.Name())
	return nil
}

func zeroLike(v value) value {
	switch v := v.(type) {
	case bool:
		return false
	case int64:
		return int64(0)
	case float64:
		return float64(0)
	case float32:
		return float32(0)
	case string, *symstr:
		return ""
	case *Term:
		switch v.sort {
		case SBool:
			return false
		case SFP64:
			return float64(0)
		case SFP32:
			return float32(0)
		}
		return int64(0)
	case *value:
		return (*value)(nil)
	case []value:
		return []value(nil)
	case iface:
		return iface{}
	case *omap:
		return (*omap)(nil)
	case *channel:
		return (*channel)(nil)
	case structure:
		s := make(structure, len(v))
		for k := range v {
			s[k] = zeroLike(v[k])
		}
		return s
	case array:
		s := make(array, len(v))
		for k := range v {
			s[k] = zeroLike(v[k])
		}
		return s
	case *ssa.Function, *closure:
		return (*ssa.Function)(nil)
	case complex128:
		return complex128(0)
	}
	panic(fmt.Sprintf("zeroLike %T", v))
}

// chargeAlloc accounts the cells a path allocates; a path that allocates more than the bound is
// cut like a path that exceeds the step bound (a resource bound, reported as a hang candidate),
// so that an unbounded loop in the code under test cannot exhaust the machine's memory.
func (i *Interp) chargeAlloc(cells int) {
	i.allocCells += int64(cells)
	if i.allocCells > maxAllocCells && i.initDepth == 0 {
		i.allocCells = 0
		panic(pathAbort{kind: "steps", msg: fmt.Sprintf("allocation bound of %d cells exceeded (step %d)", maxAllocCells, i.steps)})
	}
}

const maxAllocCells = 64 << 20

func (i *Interp) appendSlice(dst, src []value) []value {
	n := len(dst) + len(src)
	if n <= cap(dst) {
		res := dst[:n]
		for k, v := range src {
			i.setCell(&res[len(dst)+k], copyVal(v))
		}
		return res
	}
	newcap := 2 * cap(dst)
	if newcap < n {
		newcap = n
	}
	if newcap < 4 {
		newcap = 4
	}
	i.chargeAlloc(newcap)
	res := make([]value, n, newcap)
	for k := range dst {
		res[k] = dst[k]
	}
	for k, v := range src {
		res[len(dst)+k] = copyVal(v)
	}
	// spare capacity must hold zero values of the element type; use shape of an element
	if n > 0 {
		z := zeroLike(res[0])
		full := res[:newcap]
		for k := n; k < newcap; k++ {
			full[k] = copyVal(z)
		}
	}
	return res
}

// ---- range iteration

type iter interface {
	next(i *Interp, fr *frame) tuple
}

type stringIter struct {
	b   []value
	pos int
}

func (it *stringIter) next(i *Interp, fr *frame) tuple {
	if it.pos >= len(it.b) {
		return tuple{false, int64(0), int64(0)}
	}
	r, n := i.decodeRuneAt(it.b, it.pos)
	k := it.pos
	it.pos += n
	return tuple{true, int64(k), r}
}

type mapIter struct {
	m   *omap
	pos int
}

func (it *mapIter) next(i *Interp, fr *frame) tuple {
	if it.m == nil {
		return tuple{false, nil, nil}
	}
	for it.pos < len(it.m.entries) {
		e := it.m.entries[it.pos]
		it.pos++
		if !e.deleted {
			return tuple{true, e.key, copyVal(e.val)}
		}
	}
	return tuple{false, nil, nil}
}

func (i *Interp) rangeIter(fr *frame, x value, t types.Type) iter {
	switch x := x.(type) {
	case *omap:
		return &mapIter{m: x}
	case string, *symstr:
		return &stringIter{b: strBytes(x)}
	}
	panic(fmt.Sprintf("cannot range over %T", x))
}

// ---- map lookup instruction

func (i *Interp) lookup(fr *frame, instr *ssa.Lookup, x, idx value) value {
	switch x := x.(type) {
	case *omap:
		var v value
		ok := false
		if x != nil {
			v, ok = i.mapLookup(fr, x, idx)
		}
		if !ok {
			v = zero(instr.X.Type().Underlying().(*types.Map).Elem())
		} else {
			v = copyVal(v)
		}
		if instr.CommaOk {
			return tuple{v, ok}
		}
		return v
	case string:
		k := i.indexCheck(fr, idx, len(x))
		return int64(x[k])
	case *symstr:
		k := i.indexCheck(fr, idx, len(x.b))
		return x.b[k]
	}
	panic(fmt.Sprintf("unexpected x type in Lookup: %T", x))
}
