package main

// Concrete evaluation of terms under a model (a satisfying assignment of the current path
// condition). Used to avoid solver queries: if the model makes a branch condition true,
// that side is known feasible and only the other side is asked. ok=false means "cannot
// evaluate" (the caller falls back to the solver).

import (
	"math"
)

type evalCtx struct {
	model map[string]uint64
	memo  map[int]uint64
	bad   map[int]bool
}

func newEvalCtx(m map[string]uint64) *evalCtx {
	return &evalCtx{model: m, memo: map[int]uint64{}, bad: map[int]bool{}}
}

func signExt(v uint64, w int) int64 {
	if w >= 64 {
		return int64(v)
	}
	sh := uint(64 - w)
	return int64(v<<sh) >> sh
}

func b2u(b bool) uint64 {
	if b {
		return 1
	}
	return 0
}

// eval returns the value of t (bool as 0/1, BV zero-extended, FP as IEEE bits).
func (e *evalCtx) eval(t *Term) (uint64, bool) {
	if t.op == "const" {
		return t.cval, true
	}
	if v, ok := e.memo[t.id]; ok {
		return v, true
	}
	if e.bad[t.id] {
		return 0, false
	}
	v, ok := e.eval1(t)
	if ok {
		e.memo[t.id] = v
	} else {
		e.bad[t.id] = true
	}
	return v, ok
}

func (e *evalCtx) eval1(t *Term) (uint64, bool) {
	if t.op == "var" {
		return e.model[t.name], true // a variable not in the model is unconstrained so far: 0
	}
	var a [3]uint64
	if len(t.args) > 3 {
		return 0, false
	}
	// short-circuit forms first
	switch t.op {
	case "ite":
		c, ok := e.eval(t.args[0])
		if !ok {
			return 0, false
		}
		if c == 1 {
			return e.eval(t.args[1])
		}
		return e.eval(t.args[2])
	case "and":
		x, ok := e.eval(t.args[0])
		if ok && x == 0 {
			return 0, true
		}
		y, ok2 := e.eval(t.args[1])
		if ok2 && y == 0 {
			return 0, true
		}
		if ok && ok2 {
			return 1, true
		}
		return 0, false
	case "or":
		x, ok := e.eval(t.args[0])
		if ok && x == 1 {
			return 1, true
		}
		y, ok2 := e.eval(t.args[1])
		if ok2 && y == 1 {
			return 1, true
		}
		if ok && ok2 {
			return 0, true
		}
		return 0, false
	}
	for k, x := range t.args {
		v, ok := e.eval(x)
		if !ok {
			return 0, false
		}
		a[k] = v
	}
	fp := func(k int) float64 { return math.Float64frombits(a[k]) }
	isFP64 := len(t.args) > 0 && t.args[0].sort == SFP64
	switch t.op {
	case "not":
		return 1 - a[0], true
	case "=":
		if len(t.args) == 2 && (t.args[0].sort == SFP64 || t.args[0].sort == SFP32) {
			// SMT = on FP: identical values (all NaNs are one value, +0 != -0)
			x, y := fp(0), fp(1)
			if x != x || y != y {
				return b2u(x != x && y != y), true
			}
			return b2u(a[0] == a[1]), true
		}
		return b2u(a[0] == a[1]), true
	case "bvadd", "bvsub", "bvmul", "bvand", "bvor", "bvxor", "bvudiv", "bvurem", "bvsdiv", "bvsrem", "bvshl", "bvlshr", "bvashr":
		w := t.sort.Width()
		var tt TermTable
		v, ok := tt.foldBV(t.op, w, a[0], a[1])
		return v, ok
	case "bvnot":
		return maskW(^a[0], t.sort.Width()), true
	case "bvneg":
		return maskW(-a[0], t.sort.Width()), true
	case "bvult":
		return b2u(a[0] < a[1]), true
	case "bvule":
		return b2u(a[0] <= a[1]), true
	case "bvslt":
		w := t.args[0].sort.Width()
		return b2u(signExt(a[0], w) < signExt(a[1], w)), true
	case "bvsle":
		w := t.args[0].sort.Width()
		return b2u(signExt(a[0], w) <= signExt(a[1], w)), true
	case "extract":
		return maskW(a[0]>>uint(t.p2), t.p1-t.p2+1), true
	case "zext":
		return a[0], true
	case "sext":
		w := t.args[0].sort.Width()
		return maskW(uint64(signExt(a[0], w)), t.sort.Width()), true
	}
	if !isFP64 && t.sort != SFP64 {
		return 0, false
	}
	switch t.op {
	case "fp.add":
		return math.Float64bits(fp(0) + fp(1)), true
	case "fp.sub":
		return math.Float64bits(fp(0) - fp(1)), true
	case "fp.mul":
		return math.Float64bits(fp(0) * fp(1)), true
	case "fp.div":
		return math.Float64bits(fp(0) / fp(1)), true
	case "fp.neg":
		return a[0] ^ (1 << 63), true
	case "fp.abs":
		return a[0] &^ (1 << 63), true
	case "fp.eq":
		return b2u(fp(0) == fp(1)), true
	case "fp.lt":
		return b2u(fp(0) < fp(1)), true
	case "fp.leq":
		return b2u(fp(0) <= fp(1)), true
	case "fp.gt":
		return b2u(fp(0) > fp(1)), true
	case "fp.geq":
		return b2u(fp(0) >= fp(1)), true
	case "fp.isNaN":
		return b2u(fp(0) != fp(0)), true
	case "fp.isInfinite":
		return b2u(math.IsInf(fp(0), 0)), true
	case "fp.isNegative":
		return b2u(fp(0) == fp(0) && a[0]>>63 == 1), true
	case "fp.isPositive":
		return b2u(fp(0) == fp(0) && a[0]>>63 == 0), true
	case "to_fp_s":
		if t.sort != SFP64 {
			return 0, false
		}
		return math.Float64bits(float64(signExt(a[0], t.args[0].sort.Width()))), true
	case "to_fp_u":
		if t.sort != SFP64 {
			return 0, false
		}
		return math.Float64bits(float64(a[0])), true
	}
	return 0, false
}
