package selftest

import (
	"fmt"
	"sort"
	"strconv"
	"strings"
	"sync"
	"time"

	"github.com/lmorg/murex/zzverif/rt"
)

func T1() {
	x := rt.Int("x")
	rt.Assume(x > 0 && x < 10)
	y := x * 2
	rt.Assert(y != 14, "y is 14")
}

func T2() {
	s := rt.String("s", 3)
	n, err := strconv.Atoi(s)
	if err == nil {
		rt.Reach("parsed")
		rt.Assert(n >= -99 && n <= 999, "range")
		rt.Assert(strconv.Itoa(n) == s || strings.HasPrefix(s, "+") || strings.HasPrefix(s, "0") || strings.HasPrefix(s, "-0"), "roundtrip")
	}
}

func T3() {
	a := rt.String("a", 2)
	b := rt.String("b", 2)
	l := []string{a, b, "m"}
	sort.Strings(l)
	rt.Assert(l[0] <= l[1] && l[1] <= l[2], "sorted")
	m := map[string]int{}
	m[a]++
	m[b]++
	if a == b {
		rt.Assert(len(m) == 1, "one key")
	} else {
		rt.Assert(len(m) == 2, "two keys")
	}
	_ = fmt.Sprintf("%s-%d", a, len(m))
}

type box struct {
	mu  sync.Mutex
	buf []byte
	n   int
}

func (b *box) put(c byte) {
	b.mu.Lock()
	b.buf = append(b.buf, c)
	b.n++
	b.mu.Unlock()
}

// T4: two goroutines, symbolic schedule, mutex-protected state: holds.
func T4() {
	rt.SymSched(true)
	b := &box{}
	var wg sync.WaitGroup
	wg.Add(2)
	x, y := rt.Byte("x"), rt.Byte("y")
	go func() { b.put(x); b.put(x); wg.Done() }()
	go func() { b.put(y); wg.Done() }()
	wg.Wait()
	rt.Assert(b.n == 3 && len(b.buf) == 3, "lost update")
	cx := 0
	for _, c := range b.buf {
		if c == x {
			cx++
		}
	}
	rt.Assert(cx >= 2, "x bytes lost")
}

// T5: unprotected read-modify-write across a scheduling point: violated.
func T5() {
	rt.SymSched(true)
	n := 0
	var mu sync.Mutex
	var wg sync.WaitGroup
	wg.Add(2)
	inc := func() {
		mu.Lock()
		t := n
		mu.Unlock()
		mu.Lock()
		n = t + 1
		mu.Unlock()
		wg.Done()
	}
	go inc()
	go inc()
	wg.Wait()
	rt.Assert(n == 2, "lost update")
}

// T6: floats, all doubles.
func T6() {
	a, b := rt.Float64("a"), rt.Float64("b")
	rt.Assert(rt.SameFloat(a+b, b+a), "commutative")
	if a < b {
		rt.Assert(!(b <= a), "order")
	}
	var i interface{} = a
	f, ok := i.(float64)
	rt.Assert(ok && rt.SameFloat(f, a), "iface")
}

type shape interface{ area() int }
type sq struct{ s int }
type rc struct{ w, h int }

func (s sq) area() int  { return s.s * s.s }
func (r *rc) area() int { return r.w * r.h }

// T7: interfaces, closures, defer/recover, runtime panics, maps with struct keys.
func T7() {
	k := rt.IntRange("k", 0, 5)
	shapes := []shape{sq{k}, &rc{k, 2}}
	tot := 0
	for _, s := range shapes {
		tot += s.area()
	}
	rt.Assert(tot == k*k+2*k, "areas")
	arr := []int{1, 2, 3}
	msg, panicked := rt.CatchPanic(func() { _ = arr[k] })
	rt.Assert(panicked == (k >= 3), "index panic iff out of range: "+msg)
	r := func() (res int) {
		defer func() {
			if recover() != nil {
				res = -1
			}
		}()
		return 10 / (k - 2)
	}()
	if k == 2 {
		rt.Assert(r == -1, "recovered div by zero")
	} else {
		rt.Assert(r == 10/(k-2), "division")
	}
	type key struct {
		a int
		b string
	}
	m := map[key]int{{1, "x"}: 1, {2, "y"}: 2}
	m[key{k, "x"}] = 7
	if k == 1 {
		rt.Assert(len(m) == 2 && m[key{1, "x"}] == 7, "overwrite")
	} else {
		rt.Assert(len(m) == 3, "insert")
	}
	var sb strings.Builder
	for i := 0; i < k; i++ {
		sb.WriteByte('a' + byte(i))
	}
	rt.Assert(sb.Len() == k && sb.String() == "abcde"[:k], "builder")
}

// T8: an uncaught nil-map write is a violation (panic).
func T8() {
	var m map[string]int
	if rt.Byte("b") == 42 {
		m["x"] = 1
	}
}

// T9: runes, string building, utf8, switch, channels.
func T9() {
	rs := rt.Runes("r", 2)
	for _, r := range rs {
		rt.Assume(r >= ' ' && r < 127)
	}
	s := string(rs)
	rt.Assert(len(s) == 2, "ascii len")
	back := []rune(s)
	rt.Assert(back[0] == rs[0] && back[1] == rs[1], "roundtrip")
	up := strings.ToUpper(s)
	rt.Assert(len(up) == 2, "upper len")
	if rs[0] >= 'a' && rs[0] <= 'z' {
		rt.Assert(up[0] == byte(rs[0])-32, "upper")
	}
	ch := make(chan int, 2)
	ch <- 1
	ch <- 2
	close(ch)
	sum := 0
	for v := range ch {
		sum += v
	}
	rt.Assert(sum == 3, "chan")
	rt.Assert(strings.Contains(s+"#", "#"), "contains")
	q := strconv.Quote(s)
	u, err := strconv.Unquote(q)
	rt.Assert(err == nil && u == s, "quote roundtrip")
}

// T10: preemption-bounded scheduling: one preemption between the two critical sections of a
// read-modify-write is enough to lose an update: violated.
func T10() {
	rt.PreemptBound(1)
	n := 0
	var mu sync.Mutex
	var wg sync.WaitGroup
	wg.Add(2)
	inc := func() {
		mu.Lock()
		t := n
		mu.Unlock()
		mu.Lock()
		n = t + 1
		mu.Unlock()
		wg.Done()
	}
	go inc()
	go inc()
	wg.Wait()
	rt.Assert(n == 2, "lost update")
}

// T11: late-goroutine mode: the main goroutine "gives the other one time" with a sleep instead
// of waiting for it; holds under the default schedule, violated when the goroutine is late.
func T11() {
	rt.LateGoroutine(4)
	var mu sync.Mutex
	var wg sync.WaitGroup
	var log []int
	wg.Add(1)
	go func() {
		mu.Lock()
		log = append(log, 1)
		mu.Unlock()
		wg.Done()
	}()
	time.Sleep(time.Millisecond)
	mu.Lock()
	log = append(log, 2)
	mu.Unlock()
	wg.Wait()
	rt.Assert(len(log) == 2 && log[0] == 1, "order depends on the goroutine being on time")
}

// T12: the same with a real wait: holds however late the goroutine is.
func T12() {
	rt.LateGoroutine(4)
	var mu sync.Mutex
	var wg sync.WaitGroup
	var log []int
	wg.Add(1)
	go func() {
		mu.Lock()
		log = append(log, 1)
		mu.Unlock()
		wg.Done()
	}()
	time.Sleep(time.Millisecond)
	wg.Wait()
	mu.Lock()
	log = append(log, 2)
	mu.Unlock()
	rt.Assert(len(log) == 2 && log[0] == 1, "order")
}

// T13: an unbounded loop that allocates: cut by the allocation/step bound, reported as a bound hit
// (never as a pass). Checked separately by the self-test driver.
func T13() {
	var s []int
	for {
		s = append(s, len(s))
	}
}
