package selftest

// Differential corpus: every line noted here is computed once by the engine (concrete mode)
// and once by the natively compiled code; `symgo selftest` compares them line by line.

import (
	"bytes"
	"encoding/json"
	"errors"
	"fmt"
	"regexp"
	"sort"
	"strconv"
	"strings"
	"unicode/utf8"

	"github.com/lmorg/murex/zzverif/rt"
)

type vPoint struct {
	X, Y int
	Name string `json:"name,omitempty"`
	tags []string
}

func (p vPoint) String() string  { return fmt.Sprintf("(%d,%d)", p.X, p.Y) }
func (p *vPoint) Move(dx, dy int) { p.X += dx; p.Y += dy }

type vShape interface {
	Area() float64
}
type vRect struct{ w, h float64 }
type vCirc struct{ r float64 }

func (r vRect) Area() float64  { return r.w * r.h }
func (c *vCirc) Area() float64 { return 3 * c.r * c.r }

type vErr struct{ code int }

func (e *vErr) Error() string { return "verr " + strconv.Itoa(e.code) }

func vGeneric[T int | string](xs []T) (out T) {
	for _, x := range xs {
		out += x
	}
	return
}

func vDefers() (s string) {
	defer func() { s += "|d1" }()
	defer func() {
		if r := recover(); r != nil {
			s += fmt.Sprint("|recovered:", r)
		}
	}()
	for i := 0; i < 3; i++ {
		defer func(i int) { s += "|loop" + strconv.Itoa(i) }(i)
	}
	var m map[string]int
	m["x"] = 1
	return "unreachable"
}

func vPanicMsg(f func()) (msg string) {
	defer func() {
		if r := recover(); r != nil {
			msg = fmt.Sprint(r)
		}
	}()
	f()
	return "no panic"
}

func VerifSelfVectors() {
	n := func(format string, a ...interface{}) { rt.Note(fmt.Sprintf(format, a...)) }

	// integer arithmetic, wrap-around, conversions, shifts
	var i8 int8 = 127
	i8++
	var u8 uint8 = 3
	u8 -= 5
	var i32 int32 = -7
	var u64 uint64 = 1 << 63
	n("ints %d %d %d %d %d %d", i8, u8, i32/2, i32%3, u64>>62, int64(u64))
	m128, uffff, m17 := int8(-128), uint16(0xffff), -17
	n("shifts %d %d %d %d", 1<<uint(70%64), m128>>3, uffff<<4, m17>>1)
	m1, f399, umax := int8(-1), 3.99, uint32(1<<32-1)
	n("conv %d %d %d %d %v %v", int8(300%256), uint8(m1), int(f399), int(-f399), float64(7)/2, umax+1)
	n("bits %d %d %d %d", 0xf0&0x3c, 0xf0|0x0f, 0xf0^0xff, 0xff&^0x0f)
	x, y := 3, 4
	x, y = y, x+y
	n("swap %d %d", x, y)

	// floats
	f := 0.1 + 0.2
	n("floats %v %v %v %.3f %v", f, f == 0.3, 1/3.0, 2.0/3, float32(0.1))
	n("fmtfloat %s %s %s", strconv.FormatFloat(1e21, 'f', -1, 64), strconv.FormatFloat(0.000001234, 'g', -1, 64), strconv.FormatFloat(100, 'f', -1, 64))
	pf, err := strconv.ParseFloat("1e3", 64)
	n("parsefloat %v %v", pf, err)
	_, err = strconv.ParseFloat("abc", 64)
	n("parsefloat err %v", err)

	// strings, runes, bytes
	s := "héllo, 世界!"
	n("str %d %d %q %q %v", len(s), utf8.RuneCountInString(s), s[1:3], strings.ToUpper(s), strings.Fields(" a  b c "))
	for i, r := range "aé世" {
		n("range %d %c %d", i, r, r)
	}
	rs := []rune(s)
	n("runes %d %q %q", len(rs), string(rs[1]), string(rs[7:9]))
	bs := []byte("abc")
	bs2 := append(bs[:1], 'X')
	n("alias %s %s", bs, bs2)
	n("strfn %v %v %q %q %d %q", strings.Contains(s, "世"), strings.HasPrefix(s, "hé"), strings.Repeat("ab", 3), strings.Replace("aaaa", "a", "b", 2), strings.Index("chicken", "ken"), strings.TrimSpace("\t x y \n"))
	n("split %q %q %q", strings.Split("a,b,,c", ","), strings.SplitN("a,b,c", ",", 2), strings.Join([]string{"x", "y"}, "-"))
	n("quote %s %s", strconv.Quote("a\"b\n\x00é"), strconv.QuoteToASCII("é世"))
	uq, err := strconv.Unquote(`"a\tbé"`)
	n("unquote %q %v", uq, err)
	n("atoi %v", func() []interface{} {
		var out []interface{}
		for _, t := range []string{"12", "-0", "+7", "9223372036854775808", "1_0", "", "0x1f"} {
			v, e := strconv.Atoi(t)
			out = append(out, v, e)
		}
		return out
	}())
	var sb strings.Builder
	for i := 0; i < 5; i++ {
		fmt.Fprintf(&sb, "%d:", i*i)
	}
	sb.WriteByte('!')
	sb.WriteRune('世')
	n("builder %q %d", sb.String(), sb.Len())
	var bb bytes.Buffer
	bb.WriteString("hello ")
	bb.Write([]byte("world"))
	line, _ := bb.ReadString(' ')
	n("buffer %q %q", line, bb.String())

	// slices, arrays, maps
	a := [3]int{1, 2, 3}
	b := a
	b[0] = 9
	sl := a[:]
	sl[1] = 7
	n("arrays %v %v %v", a, b, sl)
	grow := make([]int, 0, 2)
	for i := 0; i < 6; i++ {
		grow = append(grow, i)
	}
	cp := make([]int, 3)
	nc := copy(cp, grow[2:])
	n("slices %v %d %d %v %d %v", grow, len(grow), nc, cp, len(grow[1:3:4]), cap(grow[1:3:4]))
	m := map[string][]int{}
	m["a"] = append(m["a"], 1)
	m["a"] = append(m["a"], 2)
	m["b"] = nil
	delete(m, "zz")
	_, okA := m["a"]
	_, okC := m["c"]
	keys := make([]string, 0)
	for k := range m {
		keys = append(keys, k)
	}
	sort.Strings(keys)
	n("maps %v %v %v %d %v", m["a"], okA, okC, len(m), keys)
	type key struct {
		a int
		b string
	}
	mk := map[key]string{{1, "x"}: "one"}
	mk[key{1, "x"}] += "!"
	n("structkey %q %q", mk[key{1, "x"}], mk[key{2, "x"}])
	ints := []int{5, 2, 8, 1, 9, 3}
	sort.Ints(ints)
	strs := []string{"pear", "Apple", "fig", "apple"}
	sort.Strings(strs)
	sort.Slice(ints, func(i, j int) bool { return ints[i]%3 < ints[j]%3 || (ints[i]%3 == ints[j]%3 && ints[i] < ints[j]) })
	n("sort %v %v", ints, strs)

	// structs, methods, interfaces, closures, generics
	p := vPoint{1, 2, "p", nil}
	q := p
	q.Move(10, 10)
	pp := &p
	pp.Move(1, 1)
	mv := pp.Move
	mv(1, 0)
	n("structs %v %v %s %+v", p, q, p, struct{ A, B int }{1, 2})
	shapes := []vShape{vRect{2, 3}, &vCirc{2}}
	tot := 0.0
	for _, sh := range shapes {
		switch v := sh.(type) {
		case vRect:
			tot += v.Area()
		case *vCirc:
			tot += v.Area() * 10
		}
	}
	_, isC := shapes[0].(*vCirc)
	n("ifaces %v %v %T", tot, isC, shapes[1])
	counter := func() func() int {
		c := 0
		return func() int { c++; return c }
	}()
	counter()
	counter()
	n("closure %d %d %s", counter(), vGeneric([]int{1, 2, 3}), vGeneric([]string{"a", "b"}))
	n("defers %s", vDefers())

	// errors and panics
	var e1 error = &vErr{3}
	wrapped := fmt.Errorf("ctx: %w", e1)
	var target *vErr
	n("errors %v %v %v %v", wrapped, errors.Is(wrapped, e1), errors.Unwrap(wrapped) == e1, errors.As(wrapped, &target))
	n("panic1 %s", vPanicMsg(func() { var xs []int; _ = xs[3] }))
	n("panic2 %s", vPanicMsg(func() { var pn *vPoint; pn.X = 1 }))
	n("panic3 %s", vPanicMsg(func() { z := 0; _ = 1 / z }))
	n("panic4 %s", vPanicMsg(func() { var i interface{} = "s"; _ = i.(int) }))
	n("panic5 %s", vPanicMsg(func() { panic(fmt.Errorf("custom %d", 5)) }))
	n("panic6 %v", strings.HasPrefix(vPanicMsg(func() { xs := []int{1, 2}; _ = xs[1:5] }), "runtime error: slice bounds out of range"))

	// control flow
	out := ""
outer:
	for i := 0; i < 4; i++ {
		for j := 0; j < 4; j++ {
			switch {
			case j == 2:
				continue outer
			case i == 3:
				break outer
			}
			out += strconv.Itoa(i*10+j) + " "
		}
	}
	sw := ""
	for _, v := range []int{1, 2, 3, 4} {
		switch v {
		case 1:
			sw += "one"
			fallthrough
		case 2:
			sw += "two"
		case 3, 4:
			sw += "big"
		}
	}
	n("flow %q %q", out, sw)
	ch := make(chan int, 3)
	done := make(chan string)
	go func() {
		sum := 0
		for v := range ch {
			sum += v
		}
		done <- "sum=" + strconv.Itoa(sum)
	}()
	for i := 1; i <= 5; i++ {
		ch <- i
	}
	close(ch)
	n("chan %s", <-done)
	sel := ""
	c1, c2 := make(chan int, 1), make(chan int, 1)
	c2 <- 7
	select {
	case v := <-c1:
		sel = "c1:" + strconv.Itoa(v)
	case v := <-c2:
		sel = "c2:" + strconv.Itoa(v)
	default:
		sel = "none"
	}
	n("select %s", sel)

	// fmt
	n("fmt %5d|%-5d|%05d|%x|%X|%o|%b|%c|%U", 42, 42, 42, 255, 255, 8, 5, 'A', 0x4e16)
	n("fmt2 %v|%+v|%q|%8.3f|%e|%t|%s|%10s|%-10s|", []string{"a", "b"}, map[string]int{"z": 1, "a": 2}, "hi", 3.14159, 1234.5678, true, []byte("by"), "r", "l")
	n("fmt3 %v %v %v %d %s", nil, e1, &p == pp, []int(nil), error(nil))
	var np *vPoint
	n("fmt4 %v %v %v", np == nil, (*vPoint)(nil) == np, [2]bool{true})

	// json, regexp
	jb, _ := json.Marshal(map[string]interface{}{"b": []int{1, 2}, "a": "x<y", "p": vPoint{1, 2, "", nil}, "n": nil, "f": 1.5})
	n("json %s", jb)
	var jv interface{}
	jerr := json.Unmarshal([]byte(`{"k":[1,2.5,"s",true,null,{"z":{}}],"a":"b"}`), &jv)
	n("json2 %v %v", jv, jerr)
	var jp vPoint
	jerr = json.Unmarshal([]byte(`{"X":5,"y":6,"name":"nm","extra":1}`), &jp)
	n("json3 %+v %v", jp, jerr)
	jerr = json.Unmarshal([]byte(`{"X":"notint"}`), &jp)
	n("json4 %v", jerr != nil)
	re := regexp.MustCompile(`^(\w+)=(\d+)$`)
	n("regexp %v %q %q %q", re.MatchString("abc=123"), re.FindStringSubmatch("k=9"), re.ReplaceAllString("x=1", "$2:$1"), regexp.MustCompile(`a+`).FindAllString("caaandaab", -1))
}
