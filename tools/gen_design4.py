#!/usr/bin/env python3
# Regenerates DESIGN.md section 4 (per-property checks as built) from harness/*/spec.json, known_findings.json
import json, os
V='/verif'
props=[json.loads(l) for l in open(V+'/properties.jsonl')]
meta=json.load(open(V+'/tools/manifest_meta.json'))
kf=json.load(open(V+'/known_findings.json'))['findings']
out=['## 4. Per-property checks (as built; generated from harness/<ID>/spec.json by tools/gen_design4.py)\n',
'Every claimed property is decided by the harness functions listed under it: ordinary Go files overlaid into the murex\n'
'package named, run by symgo over the real code. *quick* / *thorough* are the registered bounds (parameters of the\n'
'harness); "assumes" lists every model/stub the claim rests on beyond §2.5; "outside" is what the claim does not cover.\n'
'Level for all: `model_checking` (bounded, solver-decided, exhaustive within the bound).\n']
for p in props:
    pid=p['id']
    sp=V+'/harness/%s/spec.json'%pid
    out.append('\n### %s %s\n'%(pid,p['title']))
    if pid in meta['not_applicable'] or not os.path.exists(sp):
        out.append('**Not applicable** — %s\n'%meta['not_applicable'].get(pid,'no check'))
        continue
    s=json.load(open(sp))
    reg = pid in meta.get('registered',[])
    out.append(('Claimed' if reg else 'Harness exists, not registered')+'. Package `%s`.\n'%s['package'].replace('github.com/lmorg/murex/',''))
    for h in s['harnesses']:
        tier=''
        if h.get('thorough_only'): tier=' (thorough only)'
        if h.get('quick_only'): tier=' (quick only)'
        out.append('* `%s`%s — %s\n  Bounds: %s; quick %s, thorough %s.%s%s\n'%(h['func'],tier,h.get('what',''),h.get('bounds',''),json.dumps(h.get('quick')),json.dumps(h.get('thorough')),
            ' Termination: a step/decision-bound hit or deadlock is the finding.' if h.get('hang_is_finding') else '',
            (' Replay: '+('public-API driver `%s`'%h['replay_func'] if h.get('replay_func') else ('none — '+h['no_replay'] if h.get('no_replay') else 'same harness natively')))))
    if s.get('assumptions'): out.append('* Assumes: '+'; '.join(s['assumptions'])+'\n')
    if s.get('outside'): out.append('* Outside the claim: '+'; '.join(s['outside'])+'\n')
    fs=[f for f in kf if f['property']==pid]
    if fs:
        out.append('* Findings: '+'; '.join(('`%s` (open)'%f['id'] if f['status']=='open' else 'fixed `%s`'%f.get('commit','')) for f in fs)+' — see §6.\n')
s=open(V+'/DESIGN.md').read()
a=s.index('## 4. Per-property'); b=s.index('## 5. Not applicable')
s=s[:a]+''.join(out)+'\n---------------------------------------------------------------------------------------------------------\n\n'+s[b:]
open(V+'/DESIGN.md','w').write(s)
print('ok')
