#!/bin/sh
# tools/try_seed_scratch.sh <patch.diff> <property id> [tier]
# like try_seed.sh but without touching /repo or /verif/evidence: the change is applied to a scratch
# worktree of /repo HEAD and the check runs against that (VERIF_REPO / VERIF_OUT, development only)
p="$1"; id="$2"; tier="${3:-quick}"
export GOFLAGS=-mod=mod GOPROXY=off
W=/tmp/seedtry/$id.$$
mkdir -p /tmp/seedtry
git -C /repo worktree add -q --detach $W HEAD || exit 2
git -C $W apply "$p" || { echo "patch does not apply"; git -C /repo worktree remove --force $W; exit 2; }
VERIF_REPO=$W VERIF_OUT=$W.out /verif/bin/symgo check "$id" "$tier" > /tmp/seedtry/$id.$$.log 2>&1; rc=$?
git -C /repo worktree remove --force $W; rm -rf $W.out
grep -E "^(VIOLATION|INCONCLUSIVE|OK)" /tmp/seedtry/$id.$$.log | cut -c1-300 | head -6
echo "exit=$rc"
