#!/usr/bin/env python3
# regenerate the measured table of DESIGN.md section 3 from evidence/*.json (whatever tier was run last)
import json,glob
rows=[]
for p in sorted(glob.glob('/verif/evidence/C*.json')):
    e=json.load(open(p)); c=e['coverage']
    hs=c.get('harnesses',[])
    known=len(c.get('known_findings_observed') or [])
    rows.append("| %s | %s | %d | %d | %d | %d | %d | %.1f | %.0f | %s |"%(e['property_id'],e.get('tier',''),len(hs),len(c.get('functions_encoded',[])),c.get('states',0),c.get('obligations',0),c.get('queries',0),c.get('solver_s',0),e.get('wall_s',0),"holds" + (" (+%d known findings reproduced)"%known if known else "")))
tab="| property | tier | harnesses | murex/stdlib functions executed symbolically | completed paths | obligations discharged | solver queries | solver s | wall s | outcome on the unchanged tree |\n|---|---|---|---|---|---|---|---|---|---|\n"+"\n".join(rows)+"\n"
s=open('/verif/DESIGN.md').read()
a=s.index("<!-- measured:begin -->"); b=s.index("<!-- measured:end -->")
s=s[:a]+"<!-- measured:begin -->\n"+tab+s[b:]
open('/verif/DESIGN.md','w').write(s)
print(len(rows),"rows")
