#!/bin/bash
# tools/mk_seed_round.sh <round-dir> IDs...  -- prepare scratch worktrees and prompt files for seeding sub-agents
R=$1; shift
mkdir -p $R
for id in "$@"; do
  git -C /repo worktree add -q --detach $R/$id HEAD || continue
  mkdir -p $R/$id.out
  python3 - "$id" "$R" <<'PY'
import json,sys
pid,R=sys.argv[1],sys.argv[2]
for l in open('/verif/properties.jsonl'):
    d=json.loads(l)
    if d['id']==pid: break
prop="Property %s: %s\n\nStatement: %s\n\nQuantified over: %s\n"%(pid,d['title'],d['statement'],d['quantifier']['text'])
t=open('/verif/tools/seeder_prompt.tmpl').read().replace('/tmp/seed/@ID@',R+'/@ID@').replace('@ID@',pid).replace('@PROP@',prop)
t+="\nThe statement covers several behaviours and mechanisms. Choose the part of it that you judge a verification effort is LEAST likely to have covered well (a secondary code path, a less common data type or operator, an interaction between two features named in the statement), not the most obvious site.\n"
open('%s/%s.prompt.txt'%(R,pid),'w').write(t)
PY
done
ls $R
