#!/bin/sh
# re-run every registered check at quick tier on the current /repo tree (regenerates evidence/*.json)
cd /verif
for id in $(python3 -c "import json;print(' '.join(c['property_id'] for c in json.load(open('MANIFEST.json'))['checks']))"); do
  if [ -n "$1" ] && ! echo " $* " | grep -q " $id "; then continue; fi
  start=$(date +%s)
  ./check $id quick > /tmp/regen_$id.log 2>&1; rc=$?
  echo "$id rc=$rc $(( $(date +%s) - start ))s $(grep -c '^KNOWN-FINDING:' /tmp/regen_$id.log) known; $(grep -E '^(VIOLATION|INCONCLUSIVE)' /tmp/regen_$id.log | head -2 | cut -c1-200)"
done
