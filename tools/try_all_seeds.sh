#!/bin/sh
# apply every seeded change in turn (in a scratch worktree, /repo is not touched) and run the check of its property (quick tier)
cd /verif
for d in seeded/*/; do
  sd=$(basename $d); id=${sd%b}; id=${id%c}
  if [ -n "$1" ] && ! echo " $* " | grep -q " $sd "; then continue; fi
  echo "== $sd"
  tools/try_seed_scratch.sh /verif/seeded/$sd/patch.diff $id quick 2>&1 | cut -c1-300 | head -8
done
