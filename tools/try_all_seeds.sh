#!/bin/sh
# apply every seeded change in turn and run the check of its property (quick tier)
cd /verif
for d in seeded/*/; do
  id=$(basename $d)
  if [ -n "$1" ] && ! echo " $* " | grep -q " $id "; then continue; fi
  echo "== $id"
  tools/try_seed.sh /verif/seeded/$id/patch.diff $id quick 2>&1 | cut -c1-300 | head -8
done
