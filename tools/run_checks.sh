#!/bin/sh
# tools/run_checks.sh <tier> <id>...   run checks sequentially, one summary line each
tier="$1"; shift
cd /verif
for id in "$@"; do
  start=$(date +%s)
  ./check $id $tier > /tmp/check_$id.log 2>&1; rc=$?
  echo "$id rc=$rc $(( $(date +%s) - start ))s known=$(grep -c '^KNOWN-FINDING:' /tmp/check_$id.log) viol=$(grep -c '^VIOLATION' /tmp/check_$id.log) inconcl=$(grep -c '^INCONCLUSIVE' /tmp/check_$id.log) | $(grep -E '^(INCONCLUSIVE)' /tmp/check_$id.log | head -1 | cut -c1-160)"
done
