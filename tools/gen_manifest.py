#!/usr/bin/env python3
# Regenerates /verif/MANIFEST.json from harness/*/spec.json and tools/manifest_meta.json
import json, os, glob
V='/verif'
props=[json.loads(l) for l in open(V+'/properties.jsonl')]
meta=json.load(open(V+'/tools/manifest_meta.json'))
checks=[]; claimed=set()
for p in props:
    pid=p['id']
    sp=V+'/harness/%s/spec.json'%pid
    if not os.path.exists(sp) or pid in meta.get('disabled',{}) or pid not in meta.get('registered',[]): continue
    spec=json.load(open(sp))
    m=meta['checks'].get(pid,{})
    claimed.add(pid)
    hs='; '.join('%s (%s; quick %s, thorough %s)'%(h['func'],h['bounds'],h.get('quick'),h.get('thorough')) for h in spec['harnesses'])
    checks.append({
      "property_id":pid,
      "quick_cmd":"./check %s quick"%pid,
      "thorough_cmd":"./check %s thorough"%pid,
      "evidence_file":"evidence/%s.json"%pid,
      "replay_cmd_template":"./check %s --replay {path}"%pid,
      "engine":"symgo",
      "level_claimed":{"category":"model_checking",
        "text": m.get('text','Bounded symbolic execution of the real murex functions (go/ssa of the current tree): inputs are SMT variables, every branch is solver-decided, every assertion is an unsat query; holds for ALL inputs within the stated bounds, says nothing outside them.')+' Harnesses: '+hs,
        "design_ref": m.get('design_ref','DESIGN.md section 4 '+pid)},
      "level_note": m.get('note','Trusted: go/packages+go/ssa (x/tools v0.29.0), the symgo interpreter semantics and its intrinsic models (listed per run in the evidence under stubs), z3 4.8.12. Assumptions: '+'; '.join(spec.get('assumptions',[]))+'. Outside the claim: '+'; '.join(spec.get('outside',[]))),
      "technique":"bounded symbolic execution of go/ssa + SMT (z3): solver-decided, exhaustive within stated bounds, counterexamples replayed natively"
    })
na=[]
for p in props:
    if p['id'] in claimed: continue
    na.append({"property_id":p['id'],"reason":meta['not_applicable'].get(p['id'],"check not built yet (work in progress; planned in DESIGN.md section 4)")})
man={
 "version":1,
 "setup_cmd":"cd /verif/symgo && GOFLAGS=-mod=mod GOPROXY=off go build -o ../bin/symgo . && cd /verif && ./bin/symgo selftest",
 "hooks":{"guard":"verif","enable":"none needed: harnesses are injected with go/packages and `go test -overlay` overlays; no hook commits exist in /repo (only unguarded fix: commits)","baseline_off_cmd":"cd /repo && GOFLAGS=-mod=mod GOPROXY=off go test -vet=off -count=1 -timeout 25m ./...","source_commits":[],"add_only":True},
 "engines":[{"name":"symgo","path":"symgo/","serves_properties":sorted(claimed),"kind_free_text":"symbolic interpreter for go/ssa (re-execution based path exploration, SMT-LIB2 over QF_BV+FP to z3 -in), harness API rt/, driver ./check"}],
 "checks":checks,
 "notes":meta.get('notes',''),
 "not_applicable":na
}
json.dump(man,open(V+'/MANIFEST.json','w'),indent=1)
print(len(checks),'checks;',len(na),'not applicable')
