#!/usr/bin/env python3
# regenerate the table of DESIGN.md section 9 from seeded/*/meta.json
import json,glob,re,os
rows=[]
for p in sorted(glob.glob('/verif/seeded/*/meta.json')):
    m=json.load(open(p))
    esc=lambda s: s.replace('|','\\|').replace('\n',' ')
    rows.append("| %s | %s — *%s* | %s |"%(m['property']+(" (round %d)"%m['round'] if m.get('round',1)>1 else ""),esc(m['change']),esc(m['needs_to_manifest']),esc(m['caught_by'])))
n=len(rows)
notcaught=sum(1 for p in glob.glob('/verif/seeded/*/meta.json') if json.load(open(p))['caught_by'].startswith('NOT CAUGHT'))
missed=sum(1 for p in glob.glob('/verif/seeded/*/meta.json') if 'at first' in json.load(open(p))['caught_by'] or 'first reported' in json.load(open(p))['caught_by'] or 'first run' in json.load(open(p))['caught_by'])
table="| property | seeded change — *what it needs to manifest* | caught by (and what had to be strengthened) |\n|---|---|---|\n"+"\n".join(rows)+"\n"
s=open('/verif/DESIGN.md').read()
a=s.index("## 9. Seeded changes")
b=s.index("## 10. False alarms")
intro="""## 9. Seeded changes: which checks catch which

%d changes to lmorg/murex were written by independent sub-agents that saw only the text of one property and a scratch
worktree of /repo (nothing from /verif): a first round with one change for each of the 37 claimed properties, and a
second round (directories `<ID>b`) in which the seeder was additionally told to pick the part of the statement that a
verification effort is least likely to have covered, and a third round for sixteen properties (`<ID>c`) asking for a
trigger that needs two features of the statement together or a multi-step history, and a fourth round for six
properties (C06, C07, C10, C17, C18, C35) of which three were missed at first (C07: `?:` on a negative `int` variable; C10: esccli as
a method with an empty element; C17: empty items under a range counted from the end) and led to new operand kinds / a new harness /
empty list items. Each compiles, passes the existing
tests of the packages it touches (and, per the seeder, the broader suite) and comes with a demonstration test that fails
with the change and passes without it; all of that was re-confirmed by the main session in a scratch worktree
(`tools/confirm_seeds.sh`). They are kept in `/verif/seeded/<ID>/` (patch.diff, demonstration, meta.json, the seeder's
notes). `tools/try_all_seeds.sh` applies each one to /repo, runs the quick check of its property and undoes it. Result
at the registered quick bounds: **%d of %d are reported as `VIOLATION` with a replayed counterexample** (the exception, C30
round 2, changes an SQL statement executed by SQLite, which the engine cannot run and which C30 states as outside its
claim; native replay;
for schedule counterexamples deterministic re-execution in the engine, §2.9); %d were missed or not reported as a
violation by the first version of the checks and led to the strengthening noted in the last column (no check was
loosened).

"""%(n,n-notcaught,n,missed)
s=s[:a]+intro+table+"\n"+s[b:]
open('/verif/DESIGN.md','w').write(s)
print(n,"seeds,",missed,"needed strengthening")
