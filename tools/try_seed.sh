#!/bin/sh
# tools/try_seed.sh <patch.diff> <property id> [tier]   -- apply a seeded change to /repo, run the check, undo it
# (the evidence file of the unchanged tree is preserved)
p="$1"; id="$2"; tier="${3:-quick}"
cp /verif/evidence/$id.json /tmp/evidence_keep_$id.json 2>/dev/null
git -C /repo apply "$p" || { echo "patch does not apply"; exit 2; }
/verif/check "$id" "$tier" > /tmp/try_seed_$id.log 2>&1; rc=$?
git -C /repo checkout -- . 
cp /tmp/evidence_keep_$id.json /verif/evidence/$id.json 2>/dev/null
grep -E "^(VIOLATION|KNOWN-FINDING|INCONCLUSIVE|OK)" /tmp/try_seed_$id.log | cut -c1-400
echo "exit=$rc"
