#!/usr/bin/env python3
# regenerate the tables of DESIGN.md sections 6.1 / 6.2 from known_findings.json
import json,re
d=json.load(open('/verif/known_findings.json'))['findings']
esc=lambda s: s.replace('|','\\|').replace('\n',' ')
fixed=[k for k in d if k['status']=='fixed']
openk=[k for k in d if k['status']=='open']
t1="| property | commit | what failed |\n|---|---|---|\n"
for k in fixed:
    what=re.sub(r'^fixed: property=\S+ \S+ ','',k['what'])
    t1+="| %s | `%s` | %s |\n"%(k['property'],k.get('commit',''),esc(what))
t2="| property | id | what fails |\n|---|---|---|\n"
for k in openk:
    t2+="| %s | `%s` | %s |\n"%(k['property'],k['id'],esc(k['what']))
s=open('/verif/DESIGN.md').read()
a=s.index("| property | commit | what failed |"); b=s.index("### 6.2 Open known findings")
s=s[:a]+t1+"\n"+s[b:]
a=s.index("| property | id | what fails |"); b=s.index("### 6.3 ")
s=s[:a]+t2+"\n"+s[b:]
open('/verif/DESIGN.md','w').write(s)
print(len(fixed),"fixed,",len(openk),"open")
