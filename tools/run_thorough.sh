#!/bin/bash
# run the thorough tier of the given checks one after the other; summary in /tmp/thorough/summary.txt
mkdir -p /tmp/thorough
for id in "$@"; do
  t0=$(date +%s)
  VERIF_DEADLINE_S=${VERIF_DEADLINE_S:-1500} timeout 9000 /verif/check $id thorough > /tmp/thorough/$id.log 2>&1; rc=$?
  t1=$(date +%s)
  echo "$id exit=$rc wall=$((t1-t0))s $(grep -c '^KNOWN-FINDING' /tmp/thorough/$id.log) known $(grep -E '^(VIOLATION|INCONCLUSIVE)' /tmp/thorough/$id.log | head -2 | cut -c1-200 | tr '\n' ' ')" >> /tmp/thorough/summary.txt
done
