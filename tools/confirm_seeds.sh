#!/bin/bash
# confirm each seeded change in a scratch worktree of /repo HEAD
export GOFLAGS=-mod=mod GOPROXY=off
W=/tmp/confirm
rm -rf $W; git -C /repo worktree prune; git -C /repo worktree add -q --detach $W HEAD || exit 1
declare -A DEMO PKG RUN
DEMO[C01]="c01_demo_test.go:builtins/pipes/streams"; RUN[C01]="TestC01BlockedWriterThenReadAll"
DEMO[C04]="c04_demo_test.go:lang"; RUN[C04]="TestC04SkippedChainInheritsExitNum"
DEMO[C05]="try_c05_demo_test.go:builtins/core/structs"; RUN[C05]="TestC05"
DEMO[C06]="c06_demo_test.go:lang/expressions"; RUN[C06]="TestC06Demo"
DEMO[C16]="c16_demo_test.go:builtins/core/element"; RUN[C16]="TestC16"
DEMO[C17]="c17_demo_test.go:builtins/core/ranges"; RUN[C17]="TestC17Demo"
DEMO[C24]="c24_demo_test.go:lang/parameters"; RUN[C24]="TestC24"
DEMO[C27]="jobs_c27_demo_test.go:lang"; RUN[C27]="TestC27JobIdsStableInList"
DEMO[C37]="c37_demo_test.go:utils/parser"; RUN[C37]="TestC37"
DEMO[C20]="c20_demo_test.go:utils/parser"; RUN[C20]="TestC20TokenizerNeverPanics"
DEMO[C23]="c23_demo_test.go:builtins/core/structs"; RUN[C23]="TestC23"
DEMO[C09]="c09_demo_test.go:builtins/core/expressions"; RUN[C09]="TestC09Demo"
DEMO[C07]="c07_demo_test.go:builtins/core/structs"; RUN[C07]="TestC07"
DEMO[C08]="c08_demo_test.go:lang/expressions"; RUN[C08]="TestC08"
DEMO[C10]="c10_demo_test.go:."; RUN[C10]="TestC10"
DEMO[C11]="c11_demo_test.go:builtins/core/typemgmt"; RUN[C11]="TestC11"
DEMO[C12]="variables_c12_demo_test.go:lang"; RUN[C12]="TestC12Demo"
DEMO[C13]="c13_demo_test.go:lang/types"; RUN[C13]="TestC13Demo"
DEMO[C18]="demo_c18_test.go:builtins/core/mkarray"; RUN[C18]="TestDemoC18"
DEMO[C38]="c38_demo_test.go:builtins/core/lists"; RUN[C38]="TestC38"
DEMO[C02]="c02_demo_test.go:builtins/pipes/streams"; RUN[C02]="TestC02"
DEMO[C14]="c14_demo_test.go:builtins/types/csv"; RUN[C14]="TestC14CsvRoundTrip"
DEMO[C15]="c15_demo_test.go:builtins/core/structs"; RUN[C15]="TestC15"
DEMO[C21]="exec_exitstatus_demo_test.go:lang"; RUN[C21]="TestC21"
DEMO[C22]="process_alias_once_demo_test.go:lang"; RUN[C22]="TestC22"
DEMO[C25]="c25_demo_test.go:builtins/core/config"; RUN[C25]="TestC25"
DEMO[C26]="namedpipes_unique_demo_test.go:lang/pipes"; RUN[C26]="TestNamedPipeCreateSameNameOverlapping"
DEMO[C28]="c28_demo_test.go:lang"; RUN[C28]="TestC28"
DEMO[C30]="demo_c30_test.go:utils/cache"; RUN[C30]="TestC30"
DEMO[C31]="c31_demo_test.go:lang"; RUN[C31]="TestC31Demo"
DEMO[C33]="redirection_c33_demo_test.go:lang"; RUN[C33]="TestC33RedirectionCombinations"
DEMO[C34]="seed_c34_demo_test.go:utils/parser"; RUN[C34]="TestSeedC34"
DEMO[C35]="c35_demo_test.go:builtins/core/escape"; RUN[C35]="TestC35EscapeRoundTrip"
DEMO[C36]="c36_seed_demo_test.go:lang/expressions"; RUN[C36]="TestC36SeedDemo"
DEMO[C39]="break_c39_demo_test.go:builtins/core/structs"; RUN[C39]="TestC39"
DEMO[C19]="c19_demo_test.go:builtins/core/index"; RUN[C19]="TestC19"
DEMO[C03]="c03_demo_test.go:lang"; RUN[C03]="TestC03"
# a seeding round may bring its own table: $SEEDDIR/demo.tsv with lines "<id> <file>:<dir> <run regexp>"
if [ -f "${SEEDDIR:-/tmp/seed}/demo.tsv" ]; then
  while read -r id fd run; do DEMO[$id]="$fd"; RUN[$id]="$run"; done < "${SEEDDIR:-/tmp/seed}/demo.tsv"
fi
for id in "$@"; do
  f=${DEMO[$id]%%:*}; d=${DEMO[$id]##*:}
  cd $W; git checkout -q -- .; git clean -fdq
  # without the change: demo passes
  cp ${SEEDDIR:-/tmp/seed}/$id.out/$f $d/
  go test -vet=off -count=1 -run "${RUN[$id]}" ./$d/ > /tmp/confirm_$id.base.log 2>&1; base=$?
  git apply ${SEEDDIR:-/tmp/seed}/$id.out/patch.diff || { echo "$id: PATCH DOES NOT APPLY"; continue; }
  go build ./... > /tmp/confirm_$id.build.log 2>&1; build=$?
  go test -vet=off -count=1 -run "${RUN[$id]}" ./$d/ > /tmp/confirm_$id.mut.log 2>&1; mut=$?
  rm $d/$f
  # existing tests of the touched packages (and the demo package)
  pk=$(git diff --name-only | xargs -n1 dirname | sort -u | sed 's#^#./#; s#$#/...#' | tr '\n' ' ')
  go test -vet=off -count=1 $pk ./$d/ > /tmp/confirm_$id.suite.log 2>&1; suite=$?
  echo "$id: demo-without-change exit=$base (want 0) build=$build (want 0) demo-with-change exit=$mut (want !=0) existing-tests exit=$suite (want 0) pkgs=[$pk ./$d/]"
done
cd /; git -C /repo worktree remove --force $W
