// Package mx runs murex code through the public API of the real interpreter: natively
// (replay drivers) and under symgo (end-to-end harnesses: the whole interpreter is
// executed symbolically, the block text may contain symbolic bytes).
package mx

import (
	"sync"

	_ "github.com/lmorg/murex/builtins"
	"github.com/lmorg/murex/config"
	"github.com/lmorg/murex/config/defaults"
	"github.com/lmorg/murex/lang"
	"github.com/lmorg/murex/lang/ref"
	"github.com/lmorg/murex/zzverif/rt"
)

var once sync.Once

// Init initialises the interpreter once.
func Init() {
	rt.Persistent(func() {
		once.Do(func() {
			defaults.Config(config.InitConf, false)
			lang.InitEnv()
		})
	})
}

// Run executes a block in a fresh function scope and returns its output and exit number.
func Run(block string) (stdout, stderr string, exitNum int, err error) {
	Init()
	fork := lang.ShellProcess.Fork(lang.F_FUNCTION | lang.F_NEW_MODULE | lang.F_NO_STDIN | lang.F_CREATE_STDOUT | lang.F_CREATE_STDERR)
	fork.Name.Set("verif-replay")
	fork.FileRef = &ref.File{Source: &ref.Source{Module: "murex/verif-replay"}}
	exitNum, err = fork.Execute([]rune(block))
	if err != nil {
		return
	}
	bErr, _ := fork.Stderr.ReadAll()
	bOut, _ := fork.Stdout.ReadAll()
	return string(bOut), string(bErr), exitNum, nil
}
