// Package rt is the harness API of the symgo engine (/verif/symgo).
//
// Under symgo every function of this package is intercepted: inputs become SMT
// variables, Assume restricts the path, Assert becomes a solver obligation.
// Compiled natively (replay of a counterexample) the same functions read the
// solver's model from the file named by VERIF_MODEL, so the identical harness source
// is the replay test.
//
// The package is injected into the murex module by overlay as
// github.com/lmorg/murex/zzverif/rt; nothing is written into /repo.
package rt

import (
	"encoding/json"
	"fmt"
	"math"
	"os"
	"strconv"
)

type modelFile struct {
	Model  map[string]uint64 `json:"model"`
	Params map[string]int64  `json:"params"`
}

var (
	loaded  bool
	model   modelFile
	seq     = map[string]int{}
	lastClk int64
)

// ReplayFailure is the panic value used natively when an assertion fails.
type ReplayFailure struct{ Msg string }

func (r ReplayFailure) Error() string { return "VERIF-ASSERT-FAILED: " + r.Msg }

// HarnessError is a failure of the replay machinery itself (never a reproduction).
type HarnessError struct{ Msg string }

// AssumptionFailed is the panic value used natively when the model violates an assumption.
type AssumptionFailed struct{}

func load() {
	if loaded {
		return
	}
	loaded = true
	model.Model = map[string]uint64{}
	model.Params = map[string]int64{}
	if p := os.Getenv("VERIF_MODEL"); p != "" {
		b, err := os.ReadFile(p)
		if err != nil {
			panic(HarnessError{"cannot read the model file: " + err.Error()})
		}
		if err := json.Unmarshal(b, &model); err != nil {
			panic(HarnessError{"cannot parse the model file: " + err.Error()})
		}
	}
	if ps := os.Getenv("VERIF_PARAMS"); ps != "" {
		_ = json.Unmarshal([]byte(ps), &model.Params)
	}
}

// Reset clears the per-run naming state (native replay of several harnesses in one process).
func Reset() {
	seq = map[string]int{}
	lastClk = 0
}

func name(base string) string {
	k := seq[base]
	seq[base] = k + 1
	if k == 0 {
		return base
	}
	return base + "#" + strconv.Itoa(k)
}

func get(base string) uint64 {
	load()
	return model.Model[name(base)]
}

// Symbolic reports whether the harness runs under the symbolic engine.
func Symbolic() bool { return false }

// Param returns a tier-dependent concrete bound from the spec.
func Param(n string) int {
	load()
	return int(model.Params[n])
}

func Int(n string) int        { return int(int64(get(n))) }
func Int64(n string) int64    { return int64(get(n)) }
func Uint64(n string) uint64  { return get(n) }
func Int32(n string) int32    { return int32(get(n)) }
func Uint32(n string) uint32  { return uint32(get(n)) }
func Rune(n string) rune      { return rune(int32(get(n))) }
func Byte(n string) byte      { return byte(get(n)) }
func Uint8(n string) uint8    { return uint8(get(n)) }
func Bool(n string) bool      { return get(n) != 0 }
func Float64(n string) float64 { return math.Float64frombits(get(n)) }

// IntRange is a symbolic integer in [lo,hi].
func IntRange(n string, lo, hi int) int {
	v := Int(n)
	Assume(lo <= v && v <= hi)
	return v
}

// Choice is a symbolic integer in [0,k) that is concretised immediately (one path per value).
func Choice(n string, k int) int {
	v := Int(n)
	Assume(0 <= v && v < k)
	return v
}

func Bytes(n string, k int) []byte {
	b := make([]byte, k)
	for i := range b {
		b[i] = Byte(fmt.Sprintf("%s[%d]", n, i))
	}
	return b
}

func String(n string, k int) string { return string(Bytes(n, k)) }

func Runes(n string, k int) []rune {
	r := make([]rune, k)
	for i := range r {
		r[i] = Rune(fmt.Sprintf("%s[%d]", n, i))
	}
	return r
}

func Assume(c bool) {
	if !c {
		panic(AssumptionFailed{})
	}
}

func Assert(c bool, msg string) {
	if !c {
		panic(ReplayFailure{msg})
	}
}

func Fail(msg string) { panic(ReplayFailure{msg}) }

func Reach(label string) {}

// Note records a line; in vectors mode the native run prints it for comparison with the engine.
func Note(s string) {
	if os.Getenv("VERIF_MODE") == "vectors" {
		fmt.Println("VERIF-VECTOR: " + s)
	}
}

// Persistent runs f as part of the initial state: under symgo its heap writes are kept
// across paths (like package initialisation) and it runs once per worker; f must not touch
// symbolic values. Natively it just calls f (guard with sync.Once yourself).
func Persistent(f func()) { f() }

// KnownFinding marks the inputs that match a finding listed in /verif/known_findings.json.
func KnownFinding(id string, pred bool) {}

func And(a, b bool) bool     { return a && b }
func Or(a, b bool) bool      { return a || b }
func Not(a bool) bool        { return !a }
func Implies(a, b bool) bool { return !a || b }
func IteInt(c bool, a, b int) int {
	if c {
		return a
	}
	return b
}

// SameFloat: equal as numbers, or both NaN.
func SameFloat(a, b float64) bool { return a == b || (a != a && b != b) }

// Stub replaces a function by fn under symgo. Natively it cannot be done: harnesses
// that use Stub have a separate public-API replay driver.
func Stub(fullName string, fn interface{}) {}
func Unstub(fullName string)               {}

func Concrete(x int) int             { return x }
func ConcreteString(s string) string { return s }
func SymSched(on bool)               {}
func Yield()                         {}

// PreemptBound(k): under symgo, from now on the running goroutine may be preempted at every
// synchronisation point in favour of another runnable goroutine, at most k times per path
// (all such schedules are explored). Natively a no-op.
func PreemptBound(k int) {}
func WaitIdle()                      {}

// MemFS(true): under symgo, from now on the os package works on an in-memory file system that
// starts empty on every path (regular files, concrete names, contents may be symbolic) instead
// of the default empty, write-discarding one. Natively a no-op: the harness uses real files
// (under a directory from os.MkdirTemp).
func MemFS(on bool) {}

// LateGoroutine(n): under symgo, from now on one goroutine started later on the path may be
// chosen (a symbolic decision at each `go`) to be late: whenever the scheduler would run it
// while another goroutine can run, it is either released for good or passed over, at most n
// times (n = 0 switches the mode off). Every schedule explored is a legal Go schedule (Go
// promises no fairness over finite delays). Natively a no-op.
func LateGoroutine(n int) {}

// Clock returns arbitrary non-decreasing instants (seconds).
func Clock() int64 {
	v := Int64("clock")
	if v < lastClk {
		panic(AssumptionFailed{})
	}
	lastClk = v
	return v
}

// CatchPanic runs f and reports a panic of the code under test.
func CatchPanic(f func()) (msg string, panicked bool) {
	defer func() {
		if r := recover(); r != nil {
			switch r.(type) {
			case ReplayFailure, AssumptionFailed:
				panic(r)
			}
			msg, panicked = fmt.Sprint(r), true
		}
	}()
	f()
	return
}

// RecoveredPanics is the number of target panics recovered by the code under test so
// far on this path (engine only; natively unknown and reported as 0).
func RecoveredPanics() int { return 0 }

func Steps() int64                  { return 0 }
func IsSymbolic(x interface{}) bool { return false }
func Approx() int                   { return 0 }
