// Package c05: C05 end to end - the block text goes through the real parser, compile
// (incl. the `runmode` directive), Fork.Execute's run-mode selection, runModeTry /
// runModeTryPipe and the real executeProcess. The same functions are the native replay
// drivers of the kernel harnesses (they draw the same inputs in the same order).
package c05

import (
	"fmt"
	"strings"
	"sync"

	"github.com/lmorg/murex/lang"
	"github.com/lmorg/murex/lang/types"
	"github.com/lmorg/murex/zzverif/mx"
	"github.com/lmorg/murex/zzverif/rt"
)

type cmd struct {
	and, or, pipe bool
	exit          int
}

// model: the rule of the statement (same as verifC05model of the kernel harness).
func model(cmds []cmd, pipeMode bool) (ran []bool, blockExit int) {
	n := len(cmds)
	ran = make([]bool, n)
	prevFailed := false
	for s := 0; s < n; {
		e := s
		for e+1 < n && cmds[e+1].pipe {
			e++
		}
		if s > 0 && cmds[s].or && !prevFailed {
			ran[s] = false
			// the statement is silent on the other members of a pipeline whose head is skipped
			rt.Assume(e == s)
			prevFailed = false
			s = e + 1
			continue
		}
		status := 0
		if !pipeMode {
			for j := s; j <= e; j++ {
				ran[j] = true
			}
			status = cmds[e].exit
		} else {
			for j := s; j <= e; j++ {
				ran[j] = true
				status = cmds[j].exit
				if status != 0 && j < e {
					return ran, status
				}
			}
		}
		prevFailed = status != 0
		if prevFailed && !(e+1 < n && cmds[e+1].or) {
			return ran, status
		}
		s = e + 1
	}
	return ran, 0
}

func doubleOr(cmds []cmd, ran []bool) bool {
	hit := false
	for i := 1; i+1 < len(cmds); i++ {
		hit = rt.Or(hit, rt.And(rt.And(cmds[i].or, cmds[i+1].or), !ran[i]))
	}
	return hit
}

func draw(n int) []cmd {
	cmds := make([]cmd, n)
	for i := 0; i < n; i++ {
		if i > 0 {
			cmds[i].and, cmds[i].or, cmds[i].pipe = rt.Bool("and"), rt.Bool("or"), rt.Bool("pipe")
			rt.Assume(rt.Not(rt.And(cmds[i].and, cmds[i].or)))
			rt.Assume(rt.Not(rt.And(cmds[i].pipe, rt.Or(cmds[i].and, cmds[i].or))))
		}
		cmds[i].exit = rt.IntRange("exit", 0, 255)
	}
	return cmds
}

// wrappers: how the block is put under try / trypipe
const (
	wTry = iota
	wTryPipe
	wRunmodeTry     // function whose first statement is `runmode try function`
	wRunmodeTryPipe // ... `runmode trypipe function`
	// a block of one kind inside a function or block of the other kind: the block's own mode applies
	wTryInPipeFn
	wPipeInTryFn
	wTryInPipe
	wPipeInTry
	nWrappers
)

func run(cmds []cmd, wrapper int) {
	n := len(cmds)
	var mu sync.Mutex
	ranReal := make([]bool, n)
	var sb strings.Builder
	for i := 0; i < n; i++ {
		i := i
		name := fmt.Sprintf("verifc05cmd%d", i)
		lang.DefineMethod(name, func(p *lang.Process) error {
			mu.Lock()
			ranReal[i] = true
			mu.Unlock()
			p.Stdout.SetDataType(types.String)
			p.Stdout.Write([]byte{byte('a' + i)})
			p.ExitNum = cmds[i].exit
			return nil
		}, types.Any, types.String)
		switch {
		case i == 0:
		case cmds[i].and: // `if` on a symbolic Boolean: one path per operator pattern
			sb.WriteString(" && ")
		case cmds[i].or:
			sb.WriteString(" || ")
		case cmds[i].pipe:
			sb.WriteString(" | ")
		default:
			sb.WriteString(" ; ")
		}
		sb.WriteString(name)
	}
	var block string
	switch wrapper {
	case wTry:
		block = "try { " + sb.String() + " }"
	case wTryPipe:
		block = "trypipe { " + sb.String() + " }"
	case wRunmodeTry:
		block = "function verifc05fn {\n runmode try function\n " + sb.String() + "\n}\nverifc05fn"
	case wRunmodeTryPipe:
		block = "function verifc05fn {\n runmode trypipe function\n " + sb.String() + "\n}\nverifc05fn"
	case wTryInPipeFn:
		block = "function verifc05fn {\n runmode trypipe function\n try { " + sb.String() + " }\n}\nverifc05fn"
	case wPipeInTryFn:
		block = "function verifc05fn {\n runmode try function\n trypipe { " + sb.String() + " }\n}\nverifc05fn"
	case wTryInPipe:
		block = "trypipe { try { " + sb.String() + " } }"
	case wPipeInTry:
		block = "try { trypipe { " + sb.String() + " } }"
	}
	pipeMode := wrapper == wTryPipe || wrapper == wRunmodeTryPipe || wrapper == wPipeInTryFn || wrapper == wPipeInTry
	stdout, _, got, err := mx.Run(block)
	rt.Assert(err == nil, "block does not compile: "+block)
	rt.Reach("block-executed")

	ran, exit := model(cmds, pipeMode)
	rt.KnownFinding("C05-or-after-skipped-or", doubleOr(cmds, ran))
	want := ""
	for i := 0; i < n; i++ {
		if ran[i] {
			rt.Assert(ranReal[i], fmt.Sprintf("`%s`: command %d did not run although nothing before it failed unhandled", block, i))
			if i+1 == n || !cmds[i+1].pipe {
				want += string(rune('a' + i))
			}
		} else {
			rt.Assert(!ranReal[i], fmt.Sprintf("`%s`: command %d ran although the block had ended or it is a || alternative after a command that did not fail", block, i))
		}
	}
	rt.Assert(stdout == want, "`"+block+"`: stdout differs from what the rule says")
	rt.Assert(got == exit, "`"+block+"`: exit number differs from what the rule says")
	if exit != 0 {
		rt.Reach("block-ended-by-failure")
	}
}

// VerifC05ReplayTry / VerifC05ReplayTryPipe: replay drivers of VerifC05Try / VerifC05TryPipe.
func VerifC05ReplayTry()     { run(draw(rt.Param("n")), wTry) }
func VerifC05ReplayTryPipe() { run(draw(rt.Param("n")), wTryPipe) }

// VerifC05E2E: every operator pattern and symbolic exit numbers under `try { }` and `trypipe { }`.
func VerifC05E2E() {
	cmds := draw(rt.Param("n"))
	run(cmds, wTry+rt.Choice("wrapper", 2))
}

// VerifC05Runmode: the same under `runmode try function` and `runmode trypipe function`.
func VerifC05Runmode() {
	cmds := draw(rt.Param("n"))
	run(cmds, wRunmodeTry+rt.Choice("wrapper", 2))
}

// VerifC05Mixed: a try block inside a trypipe function / block and the other way round: the
// block's own kind decides how its pipelines are checked.
func VerifC05Mixed() {
	cmds := draw(rt.Param("n"))
	run(cmds, wTryInPipeFn+rt.Choice("wrapper", 4))
}
