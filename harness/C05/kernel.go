package lang

// C05 - try / trypipe stop on failure and honour ||.
//
// Real code executed: runModeTry, runModeTryPipe, waitProcess, checkTryErr is not reached
// (tryErr=false: the statement is about try/trypipe, not tryerr/trypipeerr),
// Process.SetTerminatedState/HasTerminated, streams.Stdin.Open/Close, funcID.Register/Deregister.
//
// Stub (contract of executeProcess, lang/process.go:218-224 and 419-435): a process that
// is already marked terminated is not run; otherwise it runs and sets its exit number;
// in both cases it is marked terminated and signals WaitForTermination.

import (
	"github.com/lmorg/murex/builtins/pipes/streams"
	"github.com/lmorg/murex/zzverif/rt"
)

type verifC05cmd struct {
	and, or, pipe bool
	exit          int
}

// verifC05model is the rule of the statement. pipeMode=false: try (only the last command
// of a pipeline is checked); pipeMode=true: trypipe (every command, in order).
// Returns per command whether it runs, whether the statement says anything about it
// (care), and the exit number of the block.
func verifC05model(cmds []verifC05cmd, pipeMode bool) (ran, care []bool, blockExit int) {
	n := len(cmds)
	ran = make([]bool, n)
	care = make([]bool, n)
	for i := range care {
		care[i] = true
	}
	prevFailed := false // did the command before this one fail (a skipped command counts as succeeding)
	for s := 0; s < n; {
		e := s
		for e+1 < n && cmds[e+1].pipe {
			e++
		}
		if s > 0 && cmds[s].or && !prevFailed {
			// a || alternative runs only if the command before it failed
			ran[s] = false
			// the statement is silent on the other members of a pipeline whose head is skipped
			rt.Assume(e == s)
			prevFailed = false
			s = e + 1
			continue
		}
		status := 0
		if !pipeMode {
			for j := s; j <= e; j++ {
				ran[j] = true
			}
			status = cmds[e].exit
		} else {
			for j := s; j <= e; j++ {
				ran[j] = true
				status = cmds[j].exit
				if status != 0 && j < e {
					// failed and the next command is joined by | (not ||): the block ends
					return ran, care, status
				}
			}
		}
		prevFailed = status != 0
		if prevFailed && !(e+1 < n && cmds[e+1].or) {
			return ran, care, status
		}
		s = e + 1
	}
	return ran, care, 0
}

// verifC05known: the known defect "an || alternative that follows a skipped || alternative
// runs" (try { true || out b || out c } prints c). True when the block contains
// `X || Y || Z` in which Y is skipped according to the rule.
func verifC05doubleOr(cmds []verifC05cmd, ran []bool) bool {
	hit := false
	for i := 1; i+1 < len(cmds); i++ {
		hit = rt.Or(hit, rt.And(rt.And(cmds[i].or, cmds[i+1].or), !ran[i]))
	}
	return hit
}

func verifC05run(pipeMode bool) {
	n := rt.Param("n")
	cmds := make([]verifC05cmd, n)
	procs := make([]Process, n)
	ranReal := make([]bool, n)
	parent := new(Process)
	for i := 0; i < n; i++ {
		c := &cmds[i]
		if i > 0 {
			// how this command is joined to the previous one: ; (or newline), &&, ||, or a pipe
			c.and, c.or, c.pipe = rt.Bool("and"), rt.Bool("or"), rt.Bool("pipe")
			rt.Assume(rt.Not(rt.And(c.and, c.or)))
			rt.Assume(rt.Not(rt.And(c.pipe, rt.Or(c.and, c.or))))
		}
		c.exit = rt.IntRange("exit", 0, 255)
		p := &procs[i]
		p.OperatorLogicAnd = c.and
		p.OperatorLogicOr = c.or
		p.IsMethod = c.pipe
		p.WaitForTermination = make(chan bool)
		p.Parent = parent
		// as createProcess does: own output streams, opened once, and a FID
		so, se := streams.NewStdin(), streams.NewStdin()
		so.Open()
		se.Open()
		p.Stdout, p.Stderr = so, se
		p.Variables = new(Variables)
		GlobalFIDs.Register(p)
	}
	index := func(p *Process) int {
		for i := range procs {
			if &procs[i] == p {
				return i
			}
		}
		panic("unknown process")
	}
	rt.Stub("github.com/lmorg/murex/lang.executeProcess", func(p *Process) {
		i := index(p)
		if !p.HasTerminated() {
			ranReal[i] = true
			p.ExitNum = cmds[i].exit
		}
		p.SetTerminatedState(true)
		p.WaitForTermination <- false
	})

	var got int
	if pipeMode {
		got = runModeTryPipe(&procs, false)
	} else {
		got = runModeTry(&procs, false)
	}
	rt.WaitIdle()
	rt.Reach("scheduler-returned")

	ran, care, exit := verifC05model(cmds, pipeMode)
	rt.KnownFinding("C05-or-after-skipped-or", verifC05doubleOr(cmds, ran))
	for i := 0; i < n; i++ {
		if care[i] {
			if ran[i] {
				rt.Assert(ranReal[i], "a command that must run (no unhandled failure before it, not a || alternative after a success) did not run")
			} else {
				rt.Assert(!ranReal[i], "a command ran although the block had ended or it is a || alternative after a command that did not fail")
			}
		}
	}
	rt.Assert(got == exit, "the block's exit number is not that of the failed command that ended it (or not 0 when nothing failed unhandled)")
	if exit != 0 {
		rt.Reach("block-ended-by-failure")
	}
}

func VerifC05Try()     { verifC05run(false) }
func VerifC05TryPipe() { verifC05run(true) }
