package lang

// C23 - Function parameters are bound and typed as declared.
// Real code executed: ParseMxFunctionParameters, (*murexFuncDetails).castParameters,
// parameters.Parameters.String, types.ConvertGoType, Variables.Set / GetValue / GetString.

import (
	"github.com/lmorg/murex/config"
	"github.com/lmorg/murex/lang/types"
	"github.com/lmorg/murex/zzverif/rt"
)

// ---------------------------------------------------------------------------------------
// The documented grammar (docs/commands/function.md "Syntax", changelog v6.4 for `!`):
//
//   signature := param ("," param)*                 no trailing comma
//   param     := ["!"] name [":" [type]] [ "[" default "]" ] [ '"' description '"' ]
//   name,type := one or more of A-Z a-z 0-9 _ -      (type omitted => str)
//   default   := any characters except CR, LF and "]"
//   description := any characters except CR, LF and '"'
//   white space / new lines may separate parameters and fields
//   mandatory parameters cannot follow optional ones
//
// The documentation does not say exactly where white space may stand, whether default and
// description may be swapped or repeated, or whether CR is tolerated. Two recognisers
// bracket the grammar: verifC23strict accepts only what every reading of the documentation
// accepts (it must parse), verifC23liberal accepts everything some reading could accept
// (whatever it refuses must be refused by murex). Texts between the two are not judged.
// ---------------------------------------------------------------------------------------

func verifC23ident(c byte) bool {
	return (c >= 'a' && c <= 'z') || (c >= 'A' && c <= 'Z') || (c >= '0' && c <= '9') || c == '_' || c == '-'
}

func verifC23ws(c byte) bool { return c == ' ' || c == '\t' || c == '\n' || c == '\r' }

// verifC23liberal: the most generous reading. White space (including CR) anywhere between
// tokens, CR ignored everywhere, any number of default/description fields in any order, type
// may be left out after the colon.
func verifC23liberal(text string) bool {
	// CR is not judged anywhere (CRLF source files): it is dropped before recognition
	var s []byte
	for k := 0; k < len(text); k++ {
		if text[k] != '\r' {
			s = append(s, text[k])
		}
	}
	i := 0
	skip := func() {
		for i < len(s) && verifC23ws(s[i]) {
			i++
		}
	}
	seenOptional := false
	for {
		skip()
		optional := false
		if i < len(s) && s[i] == '!' {
			optional = true
			i++
			skip()
		}
		if i >= len(s) || !verifC23ident(s[i]) {
			return false
		}
		for i < len(s) && verifC23ident(s[i]) {
			i++
		}
		if optional {
			seenOptional = true
		} else if seenOptional {
			return false
		}
		skip()
		if i < len(s) && s[i] == ':' {
			i++
			skip()
			for i < len(s) && verifC23ident(s[i]) {
				i++
			}
		}
		for {
			skip()
			if i < len(s) && s[i] == '[' {
				i++
				for i < len(s) && s[i] != ']' && s[i] != '\n' {
					i++
				}
				if i >= len(s) || s[i] != ']' {
					return false
				}
				i++
			} else if i < len(s) && s[i] == '"' {
				i++
				for i < len(s) && s[i] != '"' && s[i] != '\n' {
					i++
				}
				if i >= len(s) || s[i] != '"' {
					return false
				}
				i++
			} else {
				break
			}
		}
		skip()
		if i >= len(s) {
			return true
		}
		if s[i] != ',' {
			return false
		}
		i++
	}
}

// verifC23strict: the narrowest reading, exactly the layout of the documentation's examples:
// `[!]name[:[ ]type[ [default]][ "description"]]` joined by "," with blanks, tabs or new lines
// only around whole parameters.
func verifC23strict(s string) bool {
	i := 0
	skip := func() {
		for i < len(s) && (s[i] == ' ' || s[i] == '\t' || s[i] == '\n') {
			i++
		}
	}
	seenOptional := false
	for {
		skip()
		optional := false
		if i < len(s) && s[i] == '!' {
			optional = true
			i++
		}
		if i >= len(s) || !verifC23ident(s[i]) {
			return false
		}
		for i < len(s) && verifC23ident(s[i]) {
			i++
		}
		if optional {
			seenOptional = true
		} else if seenOptional {
			return false
		}
		if i < len(s) && s[i] == ':' {
			i++
			for i < len(s) && s[i] == ' ' {
				i++
			}
			if i >= len(s) || !verifC23ident(s[i]) {
				return false
			}
			for i < len(s) && verifC23ident(s[i]) {
				i++
			}
			// [ default] then [ "description"], each at most once, in the documented order
			if i+1 < len(s) && s[i] == ' ' && s[i+1] == '[' {
				i += 2
				for i < len(s) && s[i] != ']' && s[i] != '\n' && s[i] != '\r' {
					i++
				}
				if i >= len(s) || s[i] != ']' {
					return false
				}
				i++
			}
			if i+1 < len(s) && s[i] == ' ' && s[i+1] == '"' {
				i += 2
				for i < len(s) && s[i] != '"' && s[i] != '\n' && s[i] != '\r' {
					i++
				}
				if i >= len(s) || s[i] != '"' {
					return false
				}
				i++
			}
			skip()
		}
		// (a name without a type "should be followed by a colon or comma": nothing else is
		// promised, so trailing white space after a bare name is not judged)
		if i >= len(s) {
			return true
		}
		if s[i] != ',' {
			return false
		}
		i++
	}
}

// verifC23newlineAfterType: known finding C23-newline-after-type. A new line that follows a
// data type (possibly after blanks) - the documented multi-line layout without default and
// description.
func verifC23newlineAfterType(s string) bool {
	found := false
	for i := 0; i < len(s); i++ {
		if s[i] != '\n' {
			continue
		}
		j := i
		for j > 0 && (s[j-1] == ' ' || s[j-1] == '\t' || s[j-1] == '\r') {
			j--
		}
		if j > 0 && verifC23ident(s[j-1]) && verifC23afterColon(s, j) {
			found = true
		}
	}
	return found
}

// verifC23known registers a known finding; with -param assume_known=1 (development only) the
// matching inputs are set aside so that the rest of the space can be examined.
func verifC23known(id string, pred bool) {
	rt.KnownFinding(id, pred)
	if rt.Param("assume_known") == 1 {
		rt.Assume(!pred)
	}
}

// verifC23strayBracket: known finding C23-stray-open-bracket. An opening square bracket that
// stands where no default value can start (inside or directly after a name or type, before a
// name, after a finished default) - computed on the text alone.
func verifC23strayBracket(s string) bool {
	const (
		outside = iota // between tokens; a default may start after type/description only
		inDefault
		inDesc
	)
	st := outside
	mayStartDefault := false // true after a type followed by white space, or after a description
	stray := false
	for i := 0; i < len(s); i++ {
		c := s[i]
		switch st {
		case inDefault:
			if c == ']' {
				st = outside
				mayStartDefault = false
			}
		case inDesc:
			if c == '"' {
				st = outside
				mayStartDefault = true
			}
		default:
			switch {
			case c == '[':
				if mayStartDefault {
					st = inDefault
				} else {
					stray = true
				}
			case c == '"':
				st = inDesc
			case c == ',':
				mayStartDefault = false
			case verifC23ws(c):
				// white space after a type allows a default; tracked below
			default:
			}
			// a default may start once a colon has been seen and at least one type
			// character followed by white space
			if c == ':' {
				mayStartDefault = false
			}
			if verifC23ws(c) && i > 0 && verifC23ident(s[i-1]) && verifC23afterColon(s, i) {
				mayStartDefault = true
			}
		}
	}
	return stray
}

// verifC23afterColon: the identifier ending just before position i is a type (a colon stands
// before it, separated by white space only).
func verifC23afterColon(s string, i int) bool {
	j := i - 1
	for j >= 0 && verifC23ident(s[j]) {
		j--
	}
	for j >= 0 && verifC23ws(s[j]) {
		j--
	}
	return j >= 0 && s[j] == ':'
}

func verifC23alphabet(b []byte) {
	for i := range b {
		c := b[i]
		rt.Assume(rt.Or(rt.And(c >= ' ', c <= '~'), rt.Or(c == '\n', rt.Or(c == '\t', c == '\r'))))
	}
}

// VerifC23Accept: every text of up to n characters (printable ASCII, LF, TAB, CR).
func VerifC23Accept() {
	n := rt.Param("n")
	l := rt.Choice("len", n+1)
	b := rt.Bytes("sig", l)
	verifC23alphabet(b)
	s := string(b)

	mfp, err := ParseMxFunctionParameters(s)
	rt.Reach("parsed")

	verifC23known("C23-stray-open-bracket", verifC23strayBracket(s))
	verifC23known("C23-newline-after-type", verifC23newlineAfterType(s))

	if err == nil {
		rt.Reach("accepted")
		rt.Assert(len(mfp) >= 1, "accepted signature without parameters")
		optional := false
		for i := range mfp {
			rt.Assert(len(mfp[i].Name) > 0, "accepted a parameter without a name")
			rt.Assert(len(mfp[i].DataType) > 0, "accepted a parameter without a data type")
			if mfp[i].Optional {
				optional = true
			} else {
				rt.Assert(!optional, "accepted a mandatory parameter after an optional one")
			}
		}
		rt.Assert(verifC23liberal(s), "accepted a text that is not a signature under any reading of the documented grammar")
	} else {
		rt.Reach("rejected")
		rt.Assert(mfp == nil, "error together with parameters")
		rt.Assert(!verifC23strict(s), "rejected a signature written exactly as documented")
	}
}

// ---------------------------------------------------------------------------------------
// Round trip
// ---------------------------------------------------------------------------------------

type verifC23spec struct {
	name, typ, def, desc     string
	hasType, hasDef, hasDesc bool
	optional                 bool
}

var verifC23unicode = []string{"Jos\u00e9", "\u20ac5", "\u65e5\u672c", "na\u00efve caf\u00e9 \u00df"}

// verifC23content: m symbolic characters for a default value / description. Alphabet: blank,
// tab, lower-case letters and every ASCII punctuation or control character except CR, LF and
// the field's own terminator (upper-case letters, digits, `_` and `-` are left to
// VerifC23Accept: each costs the engine a separate path per character and field).
func verifC23content(name string, m int, terminator byte) string {
	// non-ASCII text (the documentation allows any value "including Unicode"): concrete samples,
	// the engine does not decode symbolic multi-byte characters
	if u := rt.Choice(name+"-unicode", len(verifC23unicode)+1); u > 0 {
		return verifC23unicode[u-1]
	}
	b := rt.Bytes(name, m)
	for j := range b {
		c := b[j]
		rt.Assume(rt.And(c < 0x80, rt.And(c != '\r', rt.And(c != '\n', c != terminator))))
		rt.Assume(rt.Not(rt.Or(rt.And(c >= 'A', c <= 'Z'), rt.Or(rt.And(c >= '0', c <= '9'), rt.Or(c == '_', c == '-')))))
	}
	return string(b)
}

// VerifC23RoundTrip: 1..k parameters are written in the documented layout, parsed by the real
// parser and must come back field for field. Shape (bare name / typed / default / description /
// both) and optional marker of every parameter are free; one parameter (free choice) carries
// symbolic text: first name character over the whole identifier alphabet, second name and type
// characters lower-case letters, default and description of m symbolic characters each; the
// others carry fixed punctuation-rich texts.
func VerifC23RoundTrip() {
	k := 1 + rt.Choice("params", rt.Param("k"))
	m := rt.Param("m")
	focus := rt.Choice("focus", k)
	specs := make([]verifC23spec, k)
	text := ""
	mandatoryAfterOptional := false
	seenOptional := false
	for i := 0; i < k; i++ {
		sp := &specs[i]
		sp.optional = rt.Choice("optional", 2) == 1
		if sp.optional {
			seenOptional = true
		} else if seenOptional {
			mandatoryAfterOptional = true
		}
		shape := rt.Choice("shape", 5) // 0 bare, 1 typed, 2 typed+default, 3 typed+description, 4 both
		sp.hasType = shape >= 1
		sp.hasDef = shape == 2 || shape == 4
		sp.hasDesc = shape == 3 || shape == 4
		if i == focus {
			nb := rt.Bytes("name", 2)
			c := nb[0]
			rt.Assume(rt.Or(rt.Or(rt.And(c >= 'a', c <= 'z'), rt.And(c >= 'A', c <= 'Z')),
				rt.Or(rt.And(c >= '0', c <= '9'), rt.Or(c == '_', c == '-'))))
			rt.Assume(rt.And(nb[1] >= 'a', nb[1] <= 'z'))
			sp.name = string(nb)
			if sp.hasType {
				tb := rt.Bytes("type", 2)
				rt.Assume(rt.And(tb[0] >= 'a', tb[0] <= 'z'))
				rt.Assume(rt.And(tb[1] >= 'a', tb[1] <= 'z'))
				sp.typ = string(tb)
			}
			if sp.hasDef {
				sp.def = verifC23content("default", m, ']')
			}
			if sp.hasDesc {
				sp.desc = verifC23content("desc", m, '"')
			}
		} else {
			sp.name = []string{"Var-1", "v_2", "x"}[i%3]
			if sp.hasType {
				sp.typ = []string{"int", "data-type", "str"}[i%3]
			}
			if sp.hasDef {
				sp.def = []string{`a, b: "c" [d !`, ``, `10`}[i%3]
			}
			if sp.hasDesc {
				sp.desc = []string{`How old, [roughly]: are you?!`, ``, `x`}[i%3]
			}
		}
		if !sp.hasType {
			sp.typ = types.String
		}

		// documented layout
		if i > 0 {
			switch rt.Choice("separator", 3) {
			case 0:
				text += ","
			case 1:
				text += ", "
			default:
				text += ",\n\t"
			}
		}
		if sp.optional {
			text += "!"
		}
		text += sp.name
		if sp.hasType {
			text += ": " + sp.typ
			if sp.hasDef {
				text += " [" + sp.def + "]"
			}
			if sp.hasDesc {
				text += " \"" + sp.desc + "\""
			}
		}
	}

	// known finding: a tab inside a default or description is stored as a blank
	tab := false
	for i := range specs {
		for j := 0; j < len(specs[i].def); j++ {
			tab = rt.Or(tab, specs[i].def[j] == '\t')
		}
		for j := 0; j < len(specs[i].desc); j++ {
			tab = rt.Or(tab, specs[i].desc[j] == '\t')
		}
	}
	verifC23known("C23-tab-becomes-blank", tab)
	// (the layout above puts a new line only after a default/description or a bare name's comma,
	// never directly after a type: `name: type,\n` - so C23-newline-after-type is not involved)

	mfp, err := ParseMxFunctionParameters(text)
	if mandatoryAfterOptional {
		rt.Reach("mandatory-after-optional")
		rt.Assert(err != nil, "mandatory parameter after an optional one was accepted")
		return
	}
	rt.Assert(err == nil, "a signature written as documented was rejected")
	rt.Reach("roundtrip-parsed")
	rt.Assert(len(mfp) == k, "number of parameters differs from the declaration")
	for i := 0; i < k; i++ {
		sp := &specs[i]
		rt.Assert(mfp[i].Name == sp.name, "parameter name differs from the declaration")
		rt.Assert(mfp[i].DataType == sp.typ, "parameter data type differs from the declaration (omitted type must be str)")
		rt.Assert(mfp[i].Optional == sp.optional, "optional marker lost or invented")
		rt.Assert(mfp[i].HasDefault == sp.hasDef, "presence of a default value differs from the declaration")
		rt.Assert(mfp[i].Default == sp.def, "default value differs from the declaration")
		rt.Assert(mfp[i].Description == sp.desc, "description differs from the declaration")
	}
}

// ---------------------------------------------------------------------------------------
// Binding
// ---------------------------------------------------------------------------------------

// verifC23pool: argument texts and what "converted to the declared type" means for them
// (docs/commands/function.md: `age 1.2` binds int 1, `age ten` fails; bool = murex truth value
// of the text).
var verifC23pool = []struct {
	text   string
	isNum  bool
	intVal int
	numVal float64
	truthy bool
}{
	{"7", true, 7, 7, true},
	{"-1.5", true, -1, -1.5, true},
	{"ten", false, 0, 0, true},
	{"false", false, 0, 0, false},
}

// verifC23decls: declarations a parameter is drawn from.
var verifC23decls = []struct {
	typ                  string
	optional, hasDefault bool
	def                  int // index into the pool; -1 = symbolic text (str)
}{
	{types.String, false, false, 0},
	{types.String, true, false, 0},
	{types.String, true, true, -1},
	{types.Integer, false, false, 0},
	{types.Integer, true, false, 0},
	{types.Integer, true, true, 0}, // [7]
	{types.Integer, true, true, 2}, // [ten]: a default that cannot be converted
	{types.Number, false, false, 0},
	{types.Number, true, true, 1}, // [-1.5]
	{types.Boolean, false, false, 0},
	{types.Boolean, true, true, 3}, // [false]
}

func verifC23process(args []string, background bool) *Process {
	p := new(Process)
	config.InitConf.Define("proc", "strict-vars", config.Properties{
		Description: "strict-vars", Default: true, DataType: types.Boolean,
	})
	p.Config = config.InitConf.Copy()
	p.Variables = NewVariables(p)
	p.Parameters.DefineParsed(args)
	p.Scope = p
	p.Parent = p
	p.Background.Set(background)
	return p
}

func verifC23poolIndex(text string) int {
	for j := range verifC23pool {
		if verifC23pool[j].text == text {
			return j
		}
	}
	return -1
}

// VerifC23Bind: a function with 1..k declared parameters (each drawn from verifC23decls) is
// called with 0..k arguments; str arguments and defaults have m symbolic bytes, typed ones come
// from a pool of convertible and unconvertible texts.
func VerifC23Bind() {
	k := 1 + rt.Choice("params", rt.Param("k"))
	m := rt.Param("m")
	names := []string{"alpha", "beta", "gamma", "delta", "eps"}

	mfd := new(murexFuncDetails)
	seenOptional := false
	for i := 0; i < k; i++ {
		d := verifC23decls[rt.Choice("decl", len(verifC23decls))]
		prm := MurexFuncParam{Name: names[i], DataType: d.typ, Optional: d.optional, HasDefault: d.hasDefault}
		if d.optional {
			seenOptional = true
		} else {
			// the parser never yields a mandatory parameter after an optional one
			rt.Assume(!seenOptional)
		}
		if d.hasDefault {
			if d.def < 0 {
				prm.Default = rt.String("default", m)
			} else {
				prm.Default = verifC23pool[d.def].text
			}
		}
		mfd.Parameters = append(mfd.Parameters, prm)
	}

	nargs := rt.Choice("nargs", k+1)
	args := make([]string, nargs)
	for i := 0; i < nargs; i++ {
		if mfd.Parameters[i].DataType == types.String {
			args[i] = rt.String("arg", m)
		} else {
			args[i] = verifC23pool[rt.Choice("argpool", len(verifC23pool))].text
		}
	}

	// foreground or background call. In the foreground a missing mandatory parameter is asked
	// for on the terminal (outside the claim); in the background it must fail the call.
	background := rt.Choice("background", 2) == 1
	if !background {
		rt.Assume(nargs == k || mfd.Parameters[nargs].Optional)
	}
	// known finding: in the background a missing *optional* parameter fails the call
	verifC23known("C23-optional-in-background", background && nargs < k && mfd.Parameters[nargs].Optional)

	p := verifC23process(args, background)
	err := mfd.castParameters(p)
	rt.Reach("cast-returned")

	// the statement: which parameter (if any) makes the call fail
	failAt := -1
	bound := make([]bool, k) // parameter gets a value
	texts := make([]string, k)
	for i := 0; i < k && failAt < 0; i++ {
		prm := mfd.Parameters[i]
		switch {
		case i < nargs:
			texts[i] = args[i]
		case prm.Optional && prm.HasDefault:
			texts[i] = prm.Default
		case prm.Optional:
			continue // stays unset
		default:
			failAt = i // mandatory and missing in the background: nobody to ask
			continue
		}
		if prm.DataType == types.Integer || prm.DataType == types.Number {
			if !verifC23pool[verifC23poolIndex(texts[i])].isNum {
				failAt = i
				continue
			}
		}
		bound[i] = true
	}

	if failAt >= 0 {
		rt.Reach("call-fails")
		rt.Assert(err != nil, "an argument that cannot be converted (or a missing mandatory parameter) did not fail the call")
	} else {
		rt.Reach("call-binds")
		rt.Assert(err == nil, "binding failed although every argument is convertible")
	}

	for i := 0; i < k; i++ {
		prm := mfd.Parameters[i]
		val, gerr := p.Variables.GetValue(prm.Name)
		str, serr := p.Variables.GetString(prm.Name)
		if !bound[i] {
			if failAt < 0 || i < failAt {
				rt.Reach("optional-unset")
			}
			rt.Assert(gerr != nil && val == nil, "a parameter that must stay unset has a value")
			rt.Assert(serr != nil, "a parameter that must stay unset reads as a value")
			continue
		}
		text := texts[i]
		rt.Assert(gerr == nil && serr == nil, "a bound parameter cannot be read")
		rt.Assert(p.Variables.GetDataType(prm.Name) == prm.DataType, "bound variable does not have the declared type")
		if prm.DataType == types.String {
			s, ok := val.(string)
			rt.Assert(ok, "str parameter is not held as a string")
			rt.Assert(s == text, "str parameter differs from the argument")
			rt.Assert(str == text, "str parameter prints differently from the argument")
			continue
		}
		e := verifC23pool[verifC23poolIndex(text)]
		switch prm.DataType {
		case types.Integer:
			n, ok := val.(int)
			rt.Assert(ok && n == e.intVal, "int parameter is not the argument converted to an integer")
		case types.Number:
			f, ok := val.(float64)
			rt.Assert(ok && f == e.numVal, "num parameter is not the argument converted to a number")
		case types.Boolean:
			b, ok := val.(bool)
			rt.Assert(ok && b == e.truthy, "bool parameter is not the argument's truth value")
		}
	}
}
