// Package c10: C10 - Escaped command lines parse back to the original argv.
//
// Real code executed: utils/escape.CommandLine (+ strings.Join: the body of main.argvToCmdLineStr,
// which is also called itself by VerifC10Execute in package main), the `esccli` builtin
// (builtins/core/escape.cmdEscapeCli, through lang.GoFunctions), then expressions.ParseBlock and
// expressions.StatementParametersParser (ParseStatement exec=true) - the two parsers every command
// line goes through before a command is started.
package c10

import (
	"strings"

	"github.com/lmorg/murex/builtins/pipes/streams"
	"github.com/lmorg/murex/lang"
	"github.com/lmorg/murex/lang/expressions"
	"github.com/lmorg/murex/lang/expressions/functions"
	"github.com/lmorg/murex/lang/ref"
	"github.com/lmorg/murex/utils/escape"
	"github.com/lmorg/murex/zzverif/mx"
	"github.com/lmorg/murex/zzverif/rt"
)

func newScope() *lang.Fork {
	mx.Init()
	fork := lang.ShellProcess.Fork(lang.F_FUNCTION | lang.F_NEW_MODULE | lang.F_NO_STDIN | lang.F_CREATE_STDOUT | lang.F_CREATE_STDERR)
	fork.Name.Set("verif-c10")
	fork.FileRef = &ref.File{Source: &ref.Source{Module: "murex/verif-c10"}}
	return fork
}

// Args draws the argument vector: `args` arguments (1..k), each of 0..m bytes (lengths by
// rt.Choice; `minlen` = 1 leaves empty arguments out), every 7-bit byte value.
func Args() []string {
	k := rt.Choice("args", rt.Param("k")) + 1
	m := rt.Param("m")
	minlen := rt.Param("minlen")
	a := make([]string, k)
	for i := range a {
		l := rt.Choice("len", m+1-minlen) + minlen
		a[i] = rt.String("a", l)
		for j := 0; j < l; j++ {
			rt.Assume(a[i][j] < 0x80)
		}
	}
	return a
}

// KnownEmpty: some argument is the empty string.
func KnownEmpty(a []string) bool {
	for i := range a {
		if len(a[i]) == 0 {
			return true
		}
	}
	return false
}

// Unescaped: characters escape.CommandLine leaves alone although murex's parsers give them a meaning
// wherever they stand in an argument.
const Unescaped = ";`{}~="

// KnownMeta: some argument contains one of the characters in Unescaped, or `&&`, or `%[`.
func KnownMeta(a []string) bool {
	k := false
	for i := range a {
		for j := 0; j < len(a[i]); j++ {
			for x := 0; x < len(Unescaped); x++ {
				k = rt.Or(k, a[i][j] == Unescaped[x])
			}
			if j+1 < len(a[i]) {
				k = rt.Or(k, rt.And(a[i][j] == '&', a[i][j+1] == '&'))
				k = rt.Or(k, rt.And(a[i][j] == '%', a[i][j+1] == '['))
			}
		}
	}
	return k
}

func Known(a []string) {
	e, m := KnownEmpty(a), KnownMeta(a)
	rt.KnownFinding("C10-empty-argument", e)
	rt.KnownFinding("C10-unescaped-metachar", m)
	skip := rt.Param("skipknown") // development aid only (0 in the registered tiers)
	if skip&1 != 0 {
		rt.Assume(!e)
	}
	if skip&2 != 0 {
		rt.Assume(rt.Not(m))
	}
}

// CheckLine: the command line is one plain command `cmd` whose parameters are exactly args.
func CheckLine(line string, args []string, p *lang.Process) {
	fns, err := expressions.ParseBlock([]rune(line))
	rt.Reach("block-parsed")
	rt.Assert(err == nil, "the escaped command line is not a valid block")
	if err != nil {
		return
	}
	rt.Assert(len(*fns) == 1, "the escaped command line is not exactly one command")
	if len(*fns) != 1 {
		return
	}
	fn := (*fns)[0]
	rt.Assert(string(fn.Command) == "cmd", "the command of the escaped command line is not the given one")
	rt.Assert(len(fn.NamedPipes) == 0 && len(fn.Cast) == 0, "the escaped command line has a named pipe or a cast")
	rt.Assert(fn.Properties&(functions.P_METHOD|functions.P_PIPE_OUT|functions.P_PIPE_ERR|functions.P_LOGIC_AND|functions.P_LOGIC_OR) == 0,
		"the escaped command line has a pipe or logic operator")

	name, params, err := expressions.StatementParametersParser(fn.Raw, p)
	rt.Reach("statement-parsed")
	rt.Assert(err == nil, "the parameters of the escaped command line cannot be evaluated")
	if err != nil {
		return
	}
	rt.Assert(name == "cmd", "the command name changed when its parameters were evaluated")
	rt.Assert(len(params) == len(args), "the number of arguments changed")
	if len(params) != len(args) {
		return
	}
	ok := true
	for i := range args {
		ok = rt.And(ok, params[i] == args[i])
	}
	rt.Assert(ok, "an argument changed")
}

// VerifC10CommandLine: what `murex --execute cmd args...` does with its argv:
// escape.CommandLine on a copy, joined by single spaces (main.argvToCmdLineStr), then parsed.
func VerifC10CommandLine() {
	args := Args()
	Known(args)
	fork := newScope()
	argv := append([]string{"cmd"}, args...)
	escape.CommandLine(argv)
	line := strings.Join(argv, " ")
	rt.Reach("escaped")
	CheckLine(line, args, fork.Process)
}

// VerifC10Esccli: the esccli builtin called as a function with the array as its parameters;
// its output (minus the line end it appends) is pasted after `cmd ` and parsed.
func VerifC10Esccli() {
	args := Args()
	Known(args)
	fork := newScope()

	p := newScope().Process
	out := streams.NewStdin()
	p.Stdout = out
	p.Parameters.DefineParsed(append([]string{}, args...))
	err := lang.GoFunctions["esccli"](p)
	rt.Assert(err == nil, "esccli failed")
	b, err := out.ReadAll()
	rt.Assert(err == nil, "esccli output cannot be read")
	s := string(b)
	rt.Assert(len(s) > 0 && s[len(s)-1] == '\n', "esccli output does not end with a line feed")
	if len(s) == 0 {
		return
	}
	rt.Reach("escaped")
	CheckLine("cmd "+s[:len(s)-1], args, fork.Process)
}

// VerifC10CommandLine2: same check, registered a second time with other bounds (one longer argument).
func VerifC10CommandLine2() { VerifC10CommandLine() }

// unicodeArgs: non-ASCII texts an argument may hold (the engine does not decode symbolic
// multi-byte characters, so these are concrete): accents, CJK, an emoji, and every Unicode space
// and line/paragraph separator - characters a parser might be tempted to treat as blanks.
var unicodeArgs = []string{
	"\u00e9", "\u65e5\u672c", "\U0001F600", "10\u00a0km", "\u00a0", "\u65e5\u672c\u3000\u8a9e", "a\u2003b", "\u2028x", "x\u2029", "\u0085", "a\u200bb",
	"\u3000", "\u1680", "\u202f", "\ufeff", "\u00a0x", "x\u3000", "\u00ad",
}

// VerifC10Unicode: argv = cmd + one non-ASCII text (optionally with one arbitrary ASCII byte before
// or after it), or cmd + two of the texts.
func VerifC10Unicode() {
	var args []string
	if rt.Choice("two", 2) == 1 {
		// two arguments, both plain texts of the pool
		args = []string{unicodeArgs[rt.Choice("text", rt.Param("pool"))], unicodeArgs[rt.Choice("text", rt.Param("pool"))]}
	} else {
		u := unicodeArgs[rt.Choice("text", rt.Param("pool"))]
		switch rt.Choice("side", 3) {
		case 1:
			c := rt.String("pre", 1)
			rt.Assume(c[0] < 0x80)
			u = c + u
		case 2:
			c := rt.String("post", 1)
			rt.Assume(c[0] < 0x80)
			u = u + c
		}
		args = []string{u}
	}
	Known(args)
	fork := newScope()
	argv := append([]string{"cmd"}, args...)
	escape.CommandLine(argv)
	line := strings.Join(argv, " ")
	rt.Reach("unicode-escaped")
	CheckLine(line, args, fork.Process)
}
