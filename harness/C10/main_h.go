package main

// C10 - the real main.argvToCmdLineStr (what `murex --execute cmd args...` hands to the
// interpreter as its command string), then the checks of zzverif/c10.

import (
	"github.com/lmorg/murex/lang"
	"github.com/lmorg/murex/lang/ref"
	"github.com/lmorg/murex/zzverif/c10"
	"github.com/lmorg/murex/zzverif/mx"
	"github.com/lmorg/murex/zzverif/rt"
)

func VerifC10Execute() {
	args := c10.Args()
	c10.Known(args)
	mx.Init()
	fork := lang.ShellProcess.Fork(lang.F_FUNCTION | lang.F_NEW_MODULE | lang.F_NO_STDIN | lang.F_CREATE_STDOUT | lang.F_CREATE_STDERR)
	fork.Name.Set("verif-c10")
	fork.FileRef = &ref.File{Source: &ref.Source{Module: "murex/verif-c10"}}
	line := argvToCmdLineStr(append([]string{"cmd"}, args...))
	rt.Reach("escaped")
	c10.CheckLine(line, args, fork.Process)
}
