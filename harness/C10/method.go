package c10

// esccli used as a method: the array is piped in (`%[a "" b] -> esccli`) instead of given as
// parameters. The list travels in a data type "verifc10" registered through the public
// stdio.RegisterReadArray API; its reader is murex's own lang.ArrayDataTemplate over a []string
// (what the json / str readers call), so the elements stay symbolic and an empty element is an
// element like any other.

import (
	"context"

	"github.com/lmorg/murex/builtins/pipes/streams"
	"github.com/lmorg/murex/lang"
	"github.com/lmorg/murex/lang/stdio"
	"github.com/lmorg/murex/zzverif/rt"
)

var methodStore = map[stdio.Io][]string{}

func init() {
	stdio.RegisterReadArray("verifc10", func(ctx context.Context, read stdio.Io, callback func([]byte)) error {
		return lang.ArrayDataTemplate(ctx, nil, nil, methodStore[read], callback)
	})
}

// VerifC10EsccliMethod: `<array> -> esccli`; `cmd ` + its output line is parsed and must give back the array.
func VerifC10EsccliMethod() {
	args := Args()
	Known(args)
	fork := newScope()

	p := newScope().Process
	in := streams.NewStdin()
	in.SetDataType("verifc10")
	methodStore[in] = append([]string{}, args...)
	p.Stdin = in
	p.IsMethod = true
	out := streams.NewStdin()
	p.Stdout = out
	p.Parameters.DefineParsed([]string{})
	err := lang.GoFunctions["esccli"](p)
	rt.Assert(err == nil, "esccli failed")
	b, err := out.ReadAll()
	rt.Assert(err == nil, "esccli output cannot be read")
	s := string(b)
	rt.Assert(len(s) > 0 && s[len(s)-1] == '\n', "esccli output does not end with a line feed")
	if len(s) == 0 {
		return
	}
	rt.Reach("escaped")
	CheckLine("cmd "+s[:len(s)-1], args, fork.Process)
}
