package expressions

// C36 - %[ ] and %{ } literals written in JSON syntax build the same value as JSON.
//
// Real code executed: (*ParserT).parseExpression(exec=true) -> createArrayAst/createObjectAst ->
// parseArray, parseArrayMaker, parseObject, parseObjectT methods, parseString/parseStringInfix,
// parseArrayBareword, formatArrayValue, types.ConvertGoType(.., num).
//
// The harness builds a JSON document as a Go value tree, prints it as JSON text (layout chosen by the
// solver) behind a `%`, and compares what murex builds with the tree (= what encoding/json yields for
// that text by construction of the printer; the fixed corpus VerifC36Corpus cross-checks the printer
// against encoding/json natively and under the engine).

import (
	"encoding/json"

	"github.com/lmorg/murex/zzverif/rt"
)

type verifC36node struct {
	kind byte // 't' 'f' 'n' '0' (number) 's' 'a' 'o'
	num  float64
	text string // number spelling / string contents
	arr  []*verifC36node
	keys []string
}

var verifC36numbers = []struct {
	text string
	val  float64
}{{"0", 0}, {"-1", -1}, {"1.5", 1.5}, {"1e3", 1000}, {"-0.25E-2", -0.0025}, {"123456789", 123456789}}

// verifC36str: JSON string contents without escapes: printable ASCII except " \ and murex's $ ~ ( )
func verifC36str(name string, n int) string {
	b := rt.Bytes(name, n)
	for _, c := range b {
		rt.Assume(rt.And(rt.And(c >= 0x20, c <= 0x7e), rt.And(c != '"', c != '\\')))
		rt.Assume(rt.And(rt.And(c != '$', c != '~'), rt.And(c != '(', c != ')')))
	}
	return string(b)
}

func verifC36member(name string, k int) *verifC36node {
	switch {
	case k == 0:
		return &verifC36node{kind: 't'}
	case k == 1:
		return &verifC36node{kind: 'f'}
	case k == 2:
		return &verifC36node{kind: 'n'}
	case k < 9:
		n := verifC36numbers[k-3]
		return &verifC36node{kind: '0', num: n.val, text: n.text}
	default:
		return &verifC36node{kind: 's', text: verifC36str(name, k-9)}
	}
}

const verifC36kinds = 12

type verifC36printer struct {
	layout int
	ws     byte
	out    []byte
}

// gap kinds: 0 after [ or {, 1 before comma, 2 after comma, 3 before colon, 4 after colon, 5 before ] or }
func (p *verifC36printer) gap(kind int, depth int) {
	switch p.layout {
	case 0: // compact
	case 1: // ", " and ": "
		if kind == 2 || kind == 4 {
			p.out = append(p.out, ' ')
		}
	case 2: // pretty printed
		switch kind {
		case 0, 2:
			p.out = append(p.out, '\n')
			for i := 0; i < depth; i++ {
				p.out = append(p.out, ' ', ' ')
			}
		case 5:
			p.out = append(p.out, '\n')
			for i := 0; i < depth-1; i++ {
				p.out = append(p.out, ' ', ' ')
			}
		case 4:
			p.out = append(p.out, ' ')
		}
	default: // one white space character (the same symbolic one) in every gap
		p.out = append(p.out, p.ws)
	}
}

func (p *verifC36printer) print(n *verifC36node, depth int) {
	switch n.kind {
	case 't':
		p.out = append(p.out, "true"...)
	case 'f':
		p.out = append(p.out, "false"...)
	case 'n':
		p.out = append(p.out, "null"...)
	case '0':
		p.out = append(p.out, n.text...)
	case 's':
		p.out = append(p.out, '"')
		p.out = append(p.out, n.text...)
		p.out = append(p.out, '"')
	case 'a', 'o':
		open, close := byte('['), byte(']')
		if n.kind == 'o' {
			open, close = '{', '}'
		}
		p.out = append(p.out, open)
		if len(n.arr) == 0 {
			if p.layout == 3 {
				p.gap(0, depth+1)
			}
			p.out = append(p.out, close)
			return
		}
		p.gap(0, depth+1)
		for i, m := range n.arr {
			if i > 0 {
				p.gap(1, depth+1)
				p.out = append(p.out, ',')
				p.gap(2, depth+1)
			}
			if n.kind == 'o' {
				p.out = append(p.out, '"')
				p.out = append(p.out, n.keys[i]...)
				p.out = append(p.out, '"')
				p.gap(3, depth+1)
				p.out = append(p.out, ':')
				p.gap(4, depth+1)
			}
			p.print(m, depth+1)
		}
		p.gap(5, depth+1)
		p.out = append(p.out, close)
	}
}

// verifC36same: got (what murex built) is the JSON value of the tree; one term for the leaves.
// Duplicate object keys: the last one wins (as in encoding/json); keys are concrete or assumed distinct.
func verifC36same(got any, n *verifC36node) bool {
	switch n.kind {
	case 't', 'f':
		v, ok := got.(bool)
		return ok && v == (n.kind == 't')
	case 'n':
		return got == nil
	case '0':
		v, ok := got.(float64)
		return ok && v == n.num
	case 's':
		v, ok := got.(string)
		return ok && v == n.text
	case 'a':
		v, ok := got.([]any)
		if !ok || len(v) != len(n.arr) {
			return false
		}
		eq := true
		for i := range v {
			eq = rt.And(eq, verifC36same(v[i], n.arr[i]))
		}
		return eq
	case 'o':
		v, ok := got.(map[string]any)
		if !ok {
			return false
		}
		eq := true
		distinct := 0
		for i := range n.arr {
			last := true
			for j := i + 1; j < len(n.arr); j++ {
				if n.keys[j] == n.keys[i] { // concrete or assumed distinct by the caller
					last = false
				}
			}
			if !last {
				continue
			}
			distinct++
			m, present := v[n.keys[i]]
			if !present {
				return false
			}
			eq = rt.And(eq, verifC36same(m, n.arr[i]))
		}
		return rt.And(eq, len(v) == distinct)
	}
	return false
}

func verifC36arr(m ...*verifC36node) *verifC36node { return &verifC36node{kind: 'a', arr: m} }
func verifC36obj(keys []string, m ...*verifC36node) *verifC36node {
	return &verifC36node{kind: 'o', arr: m, keys: keys}
}

const verifC36templates = 8

func verifC36hasObject(n *verifC36node) bool {
	if n.kind == 'o' && len(n.arr) > 0 {
		return true
	}
	for _, m := range n.arr {
		if verifC36hasObject(m) {
			return true
		}
	}
	return false
}

func verifC36parse(text string) (any, error) {
	tree := NewParser(nil, []rune(text), 0)
	if err := tree.parseExpression(true, true); err != nil {
		return nil, err
	}
	if len(tree.ast) != 1 || tree.ast[0].dt == nil {
		rt.Fail("the literal did not become exactly one value")
	}
	v, err := tree.ast[0].dt.GetValue()
	if err != nil {
		return nil, err
	}
	return v.Value, nil
}

// VerifC36Literal: documents from 8 templates with up to 3 scalar members (true/false/null, six number
// spellings, strings of 0..2 symbolic bytes), four layouts.
func VerifC36Literal() {
	nK := rt.Param("kinds") // member kinds explored for the third member (first two: all)
	if nK < 1 || nK > verifC36kinds {
		nK = verifC36kinds
	}
	tpl := rt.Choice("template", verifC36templates)
	m0 := verifC36member("s0", rt.Choice("member0", verifC36kinds))
	var m1, m2 *verifC36node
	need := []int{3, 3, 2, 2, 3, 2, 1, 3}[tpl]
	if need >= 2 {
		step := rt.Param("step1") // quick tier: every step-th kind for the second member
		if step < 1 {
			step = 1
		}
		m1 = verifC36member("s1", rt.Choice("member1", (verifC36kinds+step-1)/step)*step)
	}
	if need >= 3 {
		m2 = verifC36member("s2", rt.Choice("member2", nK))
	}
	var doc *verifC36node
	switch tpl {
	case 0: // flat array of 0..3 members
		all := []*verifC36node{m0, m1, m2}
		doc = verifC36arr(all[:rt.Choice("length", 4)]...)
	case 1:
		doc = verifC36arr(verifC36arr(m0, m1), m2)
	case 2: // object with one symbolic key
		k := verifC36str("key", rt.Choice("keylen", 3))
		rt.Assume(k != "b")
		doc = verifC36obj([]string{k, "b"}, m0, m1)
	case 3:
		doc = verifC36arr(verifC36obj([]string{"a"}, m0), m1)
	case 4:
		doc = verifC36obj([]string{"a", "b"}, verifC36arr(m0, m1), verifC36obj([]string{"c"}, m2))
	case 5: // duplicate key: the last one wins in JSON
		doc = verifC36obj([]string{"a", "a"}, m0, m1)
	case 6:
		doc = verifC36arr(verifC36arr(verifC36arr(m0)), verifC36arr(), verifC36obj(nil))
	default:
		doc = verifC36obj([]string{"x", "y", "z"}, m0, m1, m2)
	}
	p := &verifC36printer{layout: rt.Choice("layout", 4)}
	if p.layout == 3 {
		p.ws = rt.Byte("ws")
		rt.Assume(rt.Or(rt.Or(p.ws == ' ', p.ws == '\t'), rt.Or(p.ws == '\n', p.ws == '\r')))
		// finding: a line feed between a key, its colon and its value is not accepted by %{ }
		rt.KnownFinding("C36-linefeed-around-colon", rt.And(p.ws == '\n', verifC36hasObject(doc)))
	}
	p.out = append(p.out, '%')
	p.print(doc, 0)
	text := string(p.out)

	got, err := verifC36parse(text)
	rt.Assert(err == nil, "a literal in JSON syntax was rejected")
	rt.Reach("parsed")
	rt.Assert(verifC36same(got, doc), "the literal built another value than JSON would")
}

var verifC36corpus = []string{
	`[]`, `{}`, `[1,2,3]`, `[true,false,null]`, `["a","b"]`, `[[1,[2,[3]]],{"a":{"b":[null]}}]`,
	`{"a":1,"b":"two","c":[3,4.5,-6e2],"d":{"e":false},"f":null}`,
	"{\n  \"name\": \"murex\",\n  \"tags\": [\n    \"shell\",\n    \"json\"\n  ],\n  \"n\": 0\n}",
	`[ 1 , 2 ]`, `{"a" : 1 , "b" : 2}`, `[0,-0,1E2,1e+2,1e-2,0.5,-0.5,12345678901234567890]`,
	`["",""," ","a b","#x","/y","a:b","1","true","null","[","{","]","}",",","%","@","'"]`,
	`{"":1}`, `{"a":""}`, `{"1":2}`, `{"true":true}`, `{"a":1,"a":2}`, `[{"a":[]},{"b":{}}]`, `[[],[[]],[[],[]]]`,
	`{"k":"v,w","l":"x:y","m":"{z}"}`, `["a..b"]`, `[1.5,2.25]`,
}

// VerifC36Corpus: fixed JSON texts: murex's value against encoding/json itself (concrete, so the
// engine's native json bridge applies); ties the printer-based oracle above to the real library.
func VerifC36Corpus() {
	text := verifC36corpus[rt.Choice("document", len(verifC36corpus))]
	got, err := verifC36parse("%" + text)
	rt.Assert(err == nil, "a literal in JSON syntax was rejected: "+text)
	var want any
	rt.Assert(json.Unmarshal([]byte(text), &want) == nil, "harness: corpus entry is not JSON: "+text)
	a, err1 := json.Marshal(got)
	b, err2 := json.Marshal(want)
	rt.Assert(err1 == nil && err2 == nil, "value cannot be serialised")
	rt.Assert(string(a) == string(b), "the literal built another value than encoding/json: "+text)
	rt.Reach("corpus")
}
