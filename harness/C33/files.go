package c33

// C33, second half: `|> file` leaves the file holding exactly the bytes piped in, `>> file`
// appends exactly those bytes to its previous contents.
// Real code executed: the whole interpreter (parser incl. the `|>` / `>>` pipe tokens, the
// `>` / `>>` builtins of builtins/core/io: writeFile, isFileOpen, truncateFile, appendFile,
// io.Copy) on the engine's in-memory file system (rt.MemFS); natively on real files.

import (
	"os"

	"github.com/lmorg/murex/zzverif/mx"
	"github.com/lmorg/murex/zzverif/rt"
)

func verifC33letters(name string, n int) string {
	s := rt.String(name, n)
	for i := 0; i < n; i++ {
		rt.Assume(rt.And(s[i] >= 'a', s[i] <= 'z'))
	}
	return s
}

var verifC33fileOps = []struct {
	text   string
	append bool
}{
	{"|> FILE", false}, {">> FILE", true},
	{"|> -w FILE", false}, {">> -w FILE", true},
	{"|> --wait-for-eof FILE", false}, {">> --wait-for-eof FILE", true},
	{"|> -i FILE", false}, {">> --ignore-pipeline-check FILE", true},
	{"-> > FILE", false}, {"-> fappend FILE", true},
}

// VerifC33Files: previous contents (absent / empty / symbolic bytes) x what is piped in (a line,
// nothing at all, bytes without a line end, a line that names the file itself) x the ways of
// writing `|>` and `>>`.
func VerifC33Files() {
	mx.Init()
	rt.MemFS(true)
	dir, err := os.MkdirTemp("", "verifc33")
	rt.Assert(err == nil, "no temporary directory")
	defer os.RemoveAll(dir)
	file := dir + "/f.txt"

	n := rt.Param("n")
	var old string
	prev := rt.Choice("previous", 3)
	if prev == 2 {
		old = verifC33letters("old", 1+rt.Choice("oldlen", n))
	}
	if prev > 0 {
		rt.Assert(os.WriteFile(file, []byte(old), 0o644) == nil, "cannot prepare the file")
	}

	data := verifC33letters("data", 1+rt.Choice("len", n))
	var block, piped string
	switch rt.Choice("source", 5) {
	case 0:
		block, piped = "out "+data, data+"\n"
	case 1:
		block, piped = "out <null> "+data, "" // nothing reaches the pipe
	case 2:
		block, piped = "tout str "+data, data // no line end
	case 3:
		block, piped = "out "+file, file+"\n" // the file's own name upstream: written through RAM
	case 4:
		block, piped = "out <err> "+data, "" // stdout went to stderr
	}
	op := verifC33fileOps[rt.Choice("op", rt.Param("ops"))]
	text := ""
	for i := 0; i < len(op.text); i++ {
		if op.text[i:] == "FILE" {
			text += file
			break
		}
		text += op.text[i : i+1]
	}
	block += " " + text
	rt.Note("block: " + block)

	_, _, _, rerr := mx.Run(block)
	rt.Assert(rerr == nil, "the block did not run")
	rt.Reach("file-block-ran")

	got, err := os.ReadFile(file)
	if err != nil && prev == 0 && piped == "" {
		// nothing was piped in and there was no file: "holding exactly the bytes piped in" is
		// met by an empty file and, arguably, by no file at all
		rt.Reach("nothing-to-write")
		return
	}
	rt.Assert(err == nil, "the file does not exist after the write")
	if err != nil {
		return
	}
	want := piped
	if op.append {
		want = old + piped
		rt.Reach("appended")
	} else {
		rt.Reach("truncated")
	}
	rt.Assert(len(got) == len(want), "the file does not hold exactly the bytes piped in (length)")
	rt.Assert(string(got) == want, "the file does not hold exactly the bytes piped in")
}
