package c33

// C33 - Redirections route output exactly as written (stream wiring, end to end).
// Real code executed: the whole interpreter through lang.(*Fork).Execute: ParseBlock,
// compile, createProcess, parseRedirection, the `out`, `err` and `left` builtins, the
// streams and the null pipe.

import (
	"github.com/lmorg/murex/zzverif/mx"
	"github.com/lmorg/murex/zzverif/rt"
)

var (
	verifC33outRedir = []string{"", "<out>", "<err>", "<null>"}
	verifC33errRedir = []string{"", "<!err>", "<!out>", "<!null>"}
)

// VerifC33Wiring: one command (`out` writes its argument and a newline to stdout, `err` to
// stderr) with every combination of a stdout redirection (none, <out>, <err>, <null>) and a
// stderr redirection (none, <!err>, <!out>, <!null>) in either order, as the last command
// of a block or piped into `left 9` (which copies short lines); the argument is `n`
// symbolic lower-case letters. The block's stdout and stderr must hold exactly the bytes the
// redirections send there.
func VerifC33Wiring() {
	n := rt.Param("n")
	data := rt.String("data", n)
	for i := 0; i < n; i++ {
		rt.Assume(rt.And(data[i] >= 'a', data[i] <= 'z'))
	}
	cmd := rt.Choice("cmd", 2) // 0 = out, 1 = err
	r1 := rt.Choice("stdout_redirection", len(verifC33outRedir))
	r2 := rt.Choice("stderr_redirection", len(verifC33errRedir))
	swap := rt.Choice("order", 2) == 1
	piped := rt.Choice("piped", 2) == 1

	// known: `err <!out> x` as the last command of a pipeline loses the output
	rt.KnownFinding("C33-unpiped-bang-out", cmd == 1 && r2 == 2 && !piped)

	block := []string{"out", "err"}[cmd]
	a, b := verifC33outRedir[r1], verifC33errRedir[r2]
	if swap {
		a, b = b, a
	}
	if a != "" {
		block += " " + a
	}
	if b != "" {
		block += " " + b
	}
	block += " " + data
	if piped {
		block += " -> left 9"
	}
	rt.Note("block: " + block)

	stdout, stderr, _, err := mx.Run(block)
	rt.Assert(err == nil, "the block did not run")
	rt.Reach("ran")

	// the rule of the statement
	line := data + "\n"
	o, e := line, ""
	if cmd == 1 {
		o, e = "", line
	}
	wantOut, wantErr := "", ""
	switch r1 {
	case 0, 1:
		wantOut += o
	case 2:
		wantErr += o
	}
	switch r2 {
	case 0, 1:
		wantErr += e
	case 2:
		wantOut += e
	}
	rt.Assert(stdout == wantOut, "stdout does not hold exactly the bytes routed to it")
	rt.Assert(stderr == wantErr, "stderr does not hold exactly the bytes routed to it")
}
