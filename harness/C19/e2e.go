// Package c19 - C19: murex code never crashes or hangs the shell (builtin kernels with
// malformed / adversarial arguments and stdin).
//
// Real code executed: the whole interpreter (mx.Run = Fork.Execute) on one-command programs
// `[producer ->] builtin arg1 [arg2]` where the builtin, the producer and the arguments are
// choices from hostile pools and one argument may consist of symbolic bytes.
// Asserted (statement): no uncaught Go panic (engine: violation of kind panic), no panic that
// murex itself recovers and reports ("panic caught ..." error, or the crash handler's
// "Murex has crashed" report), and the program returns (-hang: bound hit = finding).
package c19

import (
	"os"
	"strings"

	"github.com/lmorg/murex/zzverif/mx"
	"github.com/lmorg/murex/zzverif/rt"
)

var (
	// builtins that need neither the file system nor external processes
	verifCmds = []string{
		"args", "[", "[[", "@[", "a", "ja", "pipe", "!pipe", "escape", "!escape", "eschtml", "escurl", "!escurl",
		"cast", "format", "left", "right", "prefix", "suffix", "jsplit", "mtac", "msort", "count", "match", "!match",
		"regexp", "alter", "append", "prepend", "struct-keys", "tabulate", "map", "2darray", "lang.len", "set", "!set",
		"export", "global", "return", "break", "continue", "if", "switch", "foreach", "formap", "while", "try", "catch",
		"fid-list", "fid-kill", "bg", "fg", "jobs", "list.case", "addheading", "lockfile", "is-null", "!and", "or",
		"test", "runmode", "method", "function", "private", "alias", "!alias", "autocomplete", "config", "event", "!event",
		"datetime", "rand", "round", "expr", "=", "let", "cd", "getfile", "tout", "null",
	}
	verifArgs = []string{
		"", "-1", "--bad", "-", "0", "99999999999999999999", "[", "]", "{", "{}", "''", "x", "..", "[-5]", "[:]",
		"1..", "--", "-x=", "\\", "$nope", "@nope", "%[", "<!out>", "<foo>", "json", "str", "*", "?",
	}
	verifProducers = []string{
		"", "tout json [1,2,3] -> ", "tout json {\"a\":1} -> ", "tout str x -> ", "tout json [1, -> ", "tout int x -> ",
	}
)

func verifHostile(name string, n int) string {
	b := rt.Bytes(name, n)
	for _, c := range b {
		rt.Assume(rt.And(c >= ' ', c <= '~'))
	}
	return string(b)
}

// VerifC19Builtin: cmds x producers x (arg pool + symbolic bytes).
func VerifC19Builtin() {
	mx.Init()
	nc, np, na := rt.Param("cmds"), rt.Param("producers"), rt.Param("args")
	if nc > len(verifCmds) {
		nc = len(verifCmds)
	}
	if np > len(verifProducers) {
		np = len(verifProducers)
	}
	if na > len(verifArgs) {
		na = len(verifArgs)
	}
	cmd := verifCmds[rt.Choice("cmd", nc)]
	prod := rt.Choice("producer", np)
	block := verifProducers[prod] + cmd
	a1 := rt.Choice("arg1", na+1)
	if a1 == na {
		// symbolic bytes only where the result is not re-encoded with encoding/json
		// (reflection codec on symbolic data is outside the engine)
		rt.Assume(prod == 0 && cmd != "a" && cmd != "ja" && cmd != "args")
		block += " " + verifHostile("sym", rt.Param("n"))
	} else {
		block += " " + verifArgs[a1]
		if rt.Param("two") == 1 {
			block += " " + verifArgs[rt.Choice("arg2", na)]
		}
	}
	rt.Note("block=" + block)
	// known elsewhere: `args` with an undeclared flag dereferences a nil flag table (needs a declared flag table:
	// C24's harness), `[-5]` beyond the array is a 'panic caught' (C16's harness)

	var crashLog *os.File
	savedStderr := os.Stderr
	if !rt.Symbolic() {
		// natively the crash handler writes to os.Stderr
		if f, err := os.CreateTemp("", "verif-c19"); err == nil {
			crashLog = f
			os.Stderr = f
		}
	}
	stdout, stderr, _, err := mx.Run(block)
	os.Stderr = savedStderr
	rt.Reach("returned")
	if err != nil {
		rt.Reach("compile-error")
		return
	}
	rt.Reach("executed")
	crashed := false
	if crashLog != nil {
		b, _ := os.ReadFile(crashLog.Name())
		crashLog.Close()
		os.Remove(crashLog.Name())
		crashed = strings.Contains(string(b), "Murex has crashed")
	}
	rt.Assert(!strings.Contains(stderr, "panic caught") && !strings.Contains(stdout, "panic caught"),
		"a builtin reached an internal panic ('panic caught' report)")
	rt.Assert(!crashed, "the crash handler reported 'Murex has crashed'")
	rt.Assert(rt.RecoveredPanics() == 0, "murex recovered an internal panic while running the program")
}
