// Package c19 - C19: murex code never crashes or hangs the shell (builtin kernels with
// malformed / adversarial arguments and stdin).
//
// Real code executed: the whole interpreter (mx.Run = Fork.Execute) on one-command programs
// `[producer ->] builtin arg1 [arg2]` where the builtin, the producer and the arguments are
// choices from hostile pools and one argument may consist of symbolic bytes.
// Asserted (statement): no uncaught Go panic (engine: violation of kind panic), no panic that
// murex itself recovers and reports ("panic caught ..." error, or the crash handler's
// "Murex has crashed" report), and the program returns (-hang: bound hit = finding).
package c19

import (
	"os"
	"strings"
	"sync"

	"github.com/lmorg/murex/lang"
	"github.com/lmorg/murex/lang/types"
	"github.com/lmorg/murex/zzverif/mx"
	"github.com/lmorg/murex/zzverif/rt"
)

var (
	// builtins that need neither the file system nor external processes
	verifCmds = []string{
		"args", "[", "[[", "@[", "a", "ja", "pipe", "!pipe", "escape", "!escape", "eschtml", "escurl", "!escurl",
		"cast", "format", "left", "right", "prefix", "suffix", "jsplit", "mtac", "msort", "count", "match", "!match",
		"regexp", "alter", "append", "prepend", "struct-keys", "tabulate", "map", "2darray", "lang.len", "set", "!set",
		"export", "global", "return", "break", "continue", "if", "switch", "foreach", "formap", "while", "try", "catch",
		"fid-list", "fid-kill", "bg", "fg", "jobs", "list.case", "addheading", "lockfile", "is-null", "!and", "or",
		"test", "runmode", "method", "function", "private", "alias", "!alias", "autocomplete", "config", "event", "!event",
		"datetime", "rand", "round", "expr", "=", "let", "cd", "getfile", "tout", "null",
	}
	verifArgs = []string{
		"", "-1", "--bad", "--sum", "-", "0", "99999999999999999999", "[", "]", "{", "{}", "''", "x", "..", "[-5]", "[:]",
		"1..", "--", "-x=", "\\", "$nope", "@nope", "%[", "<!out>", "<foo>", "json", "str", "*", "?", "-s", "--unique", "--total", "-t", "--help", "-h",
	}
	verifProducers = []string{
		"", "tout json [1,[2,3],{\"a\":4}] -> ", "tout json {\"a\":1} -> ", "tout str x -> ", "tout json [1, -> ", "tout int x -> ",
	}
)

func verifHostile(name string, n int) string {
	b := rt.Bytes(name, n)
	for _, c := range b {
		rt.Assume(rt.And(c >= ' ', c <= '~'))
	}
	return string(b)
}

// VerifC19Builtin: cmds x producers x (arg pool + symbolic bytes).
func VerifC19Builtin() {
	mx.Init()
	nc, np, na := rt.Param("cmds"), rt.Param("producers"), rt.Param("args")
	if nc > len(verifCmds) {
		nc = len(verifCmds)
	}
	if np > len(verifProducers) {
		np = len(verifProducers)
	}
	if na > len(verifArgs) {
		na = len(verifArgs)
	}
	cmd := verifCmds[rt.Choice("cmd", nc)]
	prod := rt.Choice("producer", np)
	block := verifProducers[prod] + cmd
	a1 := rt.Choice("arg1", na+1)
	undefinedVar := false
	if a1 == na {
		// symbolic bytes only where the result is not re-encoded with encoding/json
		// (reflection codec on symbolic data is outside the engine)
		rt.Assume(prod == 0 && cmd != "a" && cmd != "ja" && cmd != "args")
		// these compile their argument as a regular expression (the engine's regexp model needs
		// a concrete pattern); they get the hostile concrete arguments only
		rt.Assume(cmd != "jsplit" && cmd != "tabulate" && cmd != "regexp")
		// a digit names a live process of the session: what fg / bg / fid-kill then do depends on
		// the process table (`fg <FID of an ancestor>` waits for itself: reading note in DESIGN.md)
		rt.Assume(cmd != "fg" && cmd != "bg" && cmd != "fid-kill")
		block += " " + verifHostile("sym", rt.Param("n"))
	} else {
		block += " " + verifArgs[a1]
		if rt.Param("two") == 1 {
			a2 := rt.Choice("arg2", na)
			block += " " + verifArgs[a2]
			undefinedVar = verifArgs[a2] == "$nope" || verifArgs[a2] == "@nope"
		}
	}
	rt.Note("block=" + block)
	rt.KnownFinding("C19-bg-parameter-error-hangs", cmd == "bg" && (undefinedVar || (a1 < na && (verifArgs[a1] == "$nope" || verifArgs[a1] == "@nope"))))
	// known elsewhere: `args` with an undeclared flag dereferences a nil flag table (needs a declared flag table:
	// C24's harness), `[-5]` beyond the array is a 'panic caught' (C16's harness)

	var crashLog *os.File
	savedStderr := os.Stderr
	if !rt.Symbolic() {
		// natively the crash handler writes to os.Stderr
		if f, err := os.CreateTemp("", "verif-c19"); err == nil {
			crashLog = f
			os.Stderr = f
		}
	}
	stdout, stderr, _, err := mx.Run(block)
	os.Stderr = savedStderr
	rt.Reach("returned")
	if err != nil {
		rt.Reach("compile-error")
		return
	}
	rt.Reach("executed")
	crashed := false
	if crashLog != nil {
		b, _ := os.ReadFile(crashLog.Name())
		crashLog.Close()
		os.Remove(crashLog.Name())
		crashed = strings.Contains(string(b), "Murex has crashed")
	}
	rt.Assert(!strings.Contains(stderr, "panic caught") && !strings.Contains(stdout, "panic caught"),
		"a builtin reached an internal panic ('panic caught' report)")
	rt.Assert(!crashed, "the crash handler reported 'Murex has crashed'")
	rt.Assert(rt.RecoveredPanics() == 0, "murex recovered an internal panic while running the program")
}

// ---- malformed tables through the index builtins ----

var (
	verifOnce  sync.Once
	verifTable struct {
		dt   string
		text []byte
	}
	verifTableTypes = []string{types.Generic, "csv", types.JsonLines, types.String}
	verifIndexArgs  = []string{"a", "b", "c", "d", ":0", ":1", ":2", ":3", "0", "1", "2", "3", "*A", "*C", "*D", "*1", "*3"}
)

func verifDefine() {
	rt.Persistent(func() {
		verifOnce.Do(func() {
			mx.Init()
			lang.DefineFunction("verifc19emit", func(p *lang.Process) error {
				p.Stdout.SetDataType(verifTable.dt)
				_, err := p.Stdout.Write(verifTable.text)
				return err
			}, types.Any)
		})
	})
}

// VerifC19Table: `<table of any shape> -> [ sel ... ]` / `![ sel ]`: a heading row of 1..3 names and
// up to `rows` data rows whose widths (0..4 cells) are arbitrary - ragged, empty and over-long
// rows - as generic, csv, jsonl or str stdin; selectors by name, column, row and range. No crash.
func VerifC19Table() {
	verifDefine()
	dt := verifTableTypes[rt.Choice("type", rt.Param("types"))]
	names := []string{"a", "b", "c", "d"}
	var rows [][]string
	head := 1 + rt.Choice("heading", 3)
	rows = append(rows, names[:head])
	nr := rt.Choice("rows", rt.Param("rows")+1)
	for r := 0; r < nr; r++ {
		w := rt.Choice("width", 5)
		row := make([]string, w)
		for c := range row {
			row[c] = string(rune('1' + r*4 + c))
		}
		rows = append(rows, row)
	}
	var sb strings.Builder
	for _, row := range rows {
		switch dt {
		case "csv":
			sb.WriteString(strings.Join(row, ","))
		case types.JsonLines:
			sb.WriteString("[")
			for c, cell := range row {
				if c > 0 {
					sb.WriteString(",")
				}
				sb.WriteString("\"" + cell + "\"")
			}
			sb.WriteString("]")
		default:
			sb.WriteString(strings.Join(row, " "))
		}
		sb.WriteString("\n")
	}
	cmd := []string{"[", "!["}[rt.Choice("negate", 2)]
	na := rt.Param("args")
	if na > len(verifIndexArgs) {
		na = len(verifIndexArgs)
	}
	block := "verifc19emit -> " + cmd + " " + verifIndexArgs[rt.Choice("sel", na)]
	text := []byte(sb.String())
	if rt.Choice("second", 2) == 1 {
		block += " " + verifIndexArgs[rt.Choice("sel2", na)]
	} else if dt != types.JsonLines && len(rows) > 1 && len(rows[1]) > 0 {
		// single selector: the first cell of the first data row is an arbitrary printable byte
		// (blank, comma, quote, bracket, ... - whatever shifts the columns); jsonl stdin is
		// decoded by encoding/json (reflection codec: concrete bytes only)
		c := rt.Byte("cell")
		rt.Assume(rt.And(c >= ' ', c <= '~'))
		text[strings.IndexByte(sb.String(), '\n')+1] = c
	}
	verifTable.dt, verifTable.text = dt, text
	block += " ]"
	rt.Note("table=" + sb.String() + " block=" + block)
	stdout, stderr, _, err := mx.Run(block)
	rt.Reach("table-returned")
	if err != nil {
		return
	}
	rt.Assert(!strings.Contains(stderr, "panic caught") && !strings.Contains(stdout, "panic caught"),
		"an index builtin reached an internal panic on a malformed table ('panic caught' report)")
	rt.Assert(rt.RecoveredPanics() == 0, "murex recovered an internal panic while indexing a malformed table")
}

// ---- expression statements on typed variables ----

var (
	verifDecls = []string{
		"", "set int v = 5", "set int v = 0", "set num v = 5", "set float v = 1.5", "set str v = abc", "set bool v = true",
		"v = %[1,2]", "v = %{a:1}", "set int v = 5; $v++", "global int v = 7", "set json v = [1]", "v = 3",
	}
	verifOps = []string{
		"v += R", "v -= R", "v *= R", "v /= R", "v = R", "$v++", "$v--", "v = $v + R", "v = $v / R", "v = $v * R", "v <~ R",
		"v = $v % R", "v = R ?? $v", "v = $v == R", "v = $v > R", "v = $v ~~ R", "v = R[$v]", "v = $v.R", "v = $v || R", "v = -$v",
	}
	verifRhs = []string{"2", "0", "-1", "1.5", "'x'", "true", "%[1]", "$v", "null", "", "%{a:2}", "99999999999999999999"}
)

// VerifC19Assign: `<declaration of v>; <expression statement on v>; out done`: every combination of
// a typed (or undefined) variable, an assignment / arithmetic / comparison statement and a
// right-hand side. Type mismatches must come back as errors: no crash, no hang.
func VerifC19Assign() {
	mx.Init()
	pick := func(name string, pool []string, param string) string {
		k := rt.Param(param)
		if k > len(pool) {
			k = len(pool)
		}
		return pool[rt.Choice(name, k)]
	}
	decl := pick("decl", verifDecls, "decls")
	op := pick("op", verifOps, "exprs")
	rhs := pick("rhs", verifRhs, "rhs")
	block := ""
	if decl != "" {
		block = decl + "; "
	}
	block += strings.Replace(op, "R", rhs, 1) + "; out done"
	rt.Note("block=" + block)

	var crashLog *os.File
	savedStderr := os.Stderr
	if !rt.Symbolic() {
		if f, err := os.CreateTemp("", "verif-c19"); err == nil {
			crashLog = f
			os.Stderr = f
		}
	}
	stdout, stderr, _, err := mx.Run(block)
	os.Stderr = savedStderr
	rt.Reach("assign-returned")
	crashed := false
	if crashLog != nil {
		b, _ := os.ReadFile(crashLog.Name())
		crashLog.Close()
		os.Remove(crashLog.Name())
		crashed = strings.Contains(string(b), "Murex has crashed")
	}
	rt.Assert(!crashed, "the crash handler reported 'Murex has crashed'")
	if err != nil {
		return
	}
	rt.Assert(!strings.Contains(stderr, "panic caught") && !strings.Contains(stdout, "panic caught"),
		"an expression statement reached an internal panic ('panic caught' report)")
	// (a panic that a builtin recovers itself and turns into an ordinary error message - alter.Merge
	// does that for type mismatches - is not a crash by the statement: not asserted here)
}
