package pipes

// Native replay driver for C26. The defect class of this property is a panic in a bare
// goroutine, which kills the whole process and cannot be recovered by the test that runs
// the harness. The driver therefore runs the harness in a child process (the same test
// binary, same model file) and reports "the process crashed" as the reproduced failure.

import (
	"os"
	"os/exec"
	"strings"

	"github.com/lmorg/murex/zzverif/rt"
)

func verifC26inChild(run func()) {
	if os.Getenv("VERIF_C26_CHILD") == "1" {
		run()
		return
	}
	cmd := exec.Command(os.Args[0], "-test.v", "-test.run", "^TestVerifNative$", "-test.timeout", "30s")
	cmd.Env = append(os.Environ(), "VERIF_C26_CHILD=1")
	out, _ := cmd.CombinedOutput()
	s := string(out)
	if k := strings.Index(s, "VERIF-REPLAY: REPRODUCED"); k >= 0 {
		line := s[k:]
		if e := strings.IndexByte(line, '\n'); e >= 0 {
			line = line[:e]
		}
		panic(rt.ReplayFailure{Msg: line})
	}
	if k := strings.Index(s, "panic: "); k >= 0 && !strings.Contains(s, "VERIF-REPLAY:") {
		line := s[k:]
		if len(line) > 400 {
			line = line[:400]
		}
		panic(rt.ReplayFailure{Msg: "the process crashed: " + line})
	}
}

func VerifC26HistoryReplay()     { verifC26inChild(VerifC26History) }
func VerifC26DoubleCloseReplay() { verifC26inChild(VerifC26DoubleClose) }
func VerifC26ConcurrentReplay()  { verifC26inChild(VerifC26Concurrent) }
