package pipes

// C26 - Named pipes can be used in any order without crashing the shell.
// Real code executed: NewNamed, (*Named).CreatePipe/Close/Delete/Get/Dump, closePipe (the
// goroutine Close starts), stdio.CreatePipe, streams.NewStdin and the pipe's own
// Open/Close/Write/Read, null.Null.

import (
	"sync"
	"time"

	"github.com/lmorg/murex/builtins/pipes/streams"
	"github.com/lmorg/murex/lang/stdio"
	"github.com/lmorg/murex/zzverif/rt"
)

var verifC26names = []string{"a", "b", "null"}

const (
	verifC26absent  = iota // never created, deleted, or closed and the grace period is over
	verifC26live           // created and not closed
	verifC26closing        // Close accepted, grace period not over: the statement allows either answer
)

// verifC26grace lets the grace period of every pending close pass: under the engine the
// goroutines started by Close run to completion (time.Sleep is a yield), natively we wait.
func verifC26grace() {
	if rt.Symbolic() {
		rt.WaitIdle()
	} else {
		time.Sleep(2200 * time.Millisecond)
	}
}

// VerifC26History: `n` operations (create / close / delete / look up / write+read / dump)
// over the names a, b and null on one registry, by one goroutine; between operations the
// grace period of the pending closes may or may not pass (symbolic); at the end it passes.
func VerifC26History() {
	_ = streams.DefaultMaxBufferSize // the "std" pipe type is registered by this package's init
	n := rt.Param("n")
	reg := NewNamed()
	state := map[string]int{"a": verifC26absent, "b": verifC26absent, "null": verifC26live}
	obj := map[string]stdio.Io{}
	pending := 0 // closes whose grace period has not passed yet
	stale := false

	settle := func() {
		verifC26grace()
		pending = 0
		for _, nm := range verifC26names {
			if state[nm] == verifC26closing {
				state[nm] = verifC26absent
				delete(obj, nm)
			}
		}
		rt.Reach("grace-period-passed")
	}
	lookup := func(nm, when string) stdio.Io {
		io, err := reg.Get(nm)
		switch state[nm] {
		case verifC26absent:
			rt.Assert(err != nil, when+": looking up a missing pipe did not return an error")
		case verifC26live:
			if stale {
				// a close accepted for an earlier pipe of this name may still be pending
				// (close, delete, create again): not judged here
				break
			}
			rt.Assert(err == nil && io != nil, when+": looking up a live pipe failed")
			if prev, ok := obj[nm]; ok {
				rt.Assert(prev == io, when+": a live name now denotes a different pipe")
			} else if err == nil {
				obj[nm] = io
			}
		}
		if err != nil {
			return nil
		}
		return io
	}

	for i := 0; i < n; i++ {
		if pending > 0 && rt.Choice("grace_passes", 2) == 1 {
			settle()
			stale = false
		}
		nm := verifC26names[rt.Choice("name", len(verifC26names))]
		switch rt.Choice("op", 6) {
		case 0: // pipe NAME
			err := reg.CreatePipe(nm, "std", "")
			if err == nil {
				rt.Assert(state[nm] != verifC26live, "created a second pipe under a live name")
				if state[nm] == verifC26closing {
					stale = true
				}
				state[nm] = verifC26live
				delete(obj, nm)
				rt.Reach("created")
			} else {
				rt.Reach("create-refused")
			}
		case 1: // !pipe NAME
			err := reg.Close(nm)
			if state[nm] == verifC26absent {
				rt.Assert(err != nil, "closing a missing pipe did not return an error")
				rt.Reach("close-missing")
			}
			if err == nil {
				rt.Assert(nm != "null", "the null pipe was closed")
				state[nm] = verifC26closing
				pending++
				rt.Reach("close-accepted")
			}
		case 2: // Delete (used by onCommandCompletion)
			err := reg.Delete(nm)
			if state[nm] == verifC26absent {
				rt.Assert(err != nil, "deleting a missing pipe did not return an error")
				rt.Reach("delete-missing")
			}
			if err == nil {
				rt.Assert(nm != "null", "the null pipe was deleted")
				if state[nm] == verifC26closing {
					stale = true // the pending close now refers to a name that is gone
				}
				state[nm] = verifC26absent
				delete(obj, nm)
				rt.Reach("deleted")
			}
		case 3: // <NAME> look-up
			lookup(nm, "Get")
			rt.Reach("looked-up")
		case 4: // write to and read from the pipe behind the name
			if io := lookup(nm, "Get for write"); io != nil {
				b := rt.Byte("data")
				io.Write([]byte{b})
				p := make([]byte, 1)
				if nm != "null" && state[nm] == verifC26live && !stale {
					k, _ := io.Read(p)
					rt.Assert(k == 1 && p[0] == b, "a live named pipe did not hand back the byte written to it")
				}
				rt.Reach("written")
			}
		case 5:
			d := reg.Dump()
			for _, x := range verifC26names {
				_, listed := d[x]
				if stale {
					continue
				}
				if state[x] == verifC26live {
					rt.Assert(listed, "a live pipe is missing from the registry listing")
				}
				if state[x] == verifC26absent {
					rt.Assert(!listed, "a missing pipe is in the registry listing")
				}
			}
			rt.Reach("dumped")
		}
	}
	// eventually every grace period passes: closed pipes are gone, nothing crashed
	settle()
	for _, x := range verifC26names {
		if state[x] == verifC26absent {
			_, err := reg.Get(x)
			rt.Assert(err != nil, "a closed pipe is still there after its grace period")
		} else if !stale {
			lookup(x, "final Get")
		}
	}
	rt.Reach("end")
}

// VerifC26DoubleClose is the witness of the known crash: the same pipe closed twice within the
// grace period (`pipe a; !pipe a; !pipe a`).
func VerifC26DoubleClose() {
	_ = streams.DefaultMaxBufferSize
	reg := NewNamed()
	rt.Assert(reg.CreatePipe("a", "std", "") == nil, "cannot create a pipe")
	e1 := reg.Close("a")
	e2 := reg.Close("a")
	rt.Reach("closed-twice")
	_, _ = e1, e2
	verifC26grace()
	_, err := reg.Get("a")
	rt.Assert(err != nil, "a closed pipe is still there after its grace period")
}

var verifC26zero sync.WaitGroup

// VerifC26Concurrent: `threads` goroutines, each issuing `k` operations (create / close /
// delete / look up, all combinations) on the name "a" (which exists beforehand or not),
// every interleaving of the registry's critical sections (scheduling decision before each
// mutex acquisition, see harness/C01), the goroutines started by Close included. Oracle:
// nothing panics or deadlocks; once everything has settled the registry is consistent
// (look-up succeeds iff the name is listed; the null pipe is still there) and a name whose
// last accepted operation was a close or delete is gone.
var verifC26pre int

func VerifC26Concurrent() {
	_ = streams.DefaultMaxBufferSize
	nt, k := rt.Param("threads"), rt.Param("k")
	reg := NewNamed()
	verifC26pre = 0
	if rt.Choice("exists", 2) == 1 {
		rt.Assert(reg.CreatePipe("a", "std", "") == nil, "cannot create a pipe")
		verifC26pre = 1
	}
	ops := make([][]int, nt)
	for t := range ops {
		for j := 0; j < k; j++ {
			ops[t] = append(ops[t], rt.Choice("op", 4))
		}
	}
	rt.Stub("(*sync.Mutex).Lock", func(m *sync.Mutex) {
		rt.SymSched(true)
		verifC26zero.Wait() // zero counter: returns at once; under the engine a scheduling decision
		rt.SymSched(false)
		for !m.TryLock() {
			rt.Yield()
		}
	})
	var wg sync.WaitGroup
	creates := 0
	for t := 0; t < nt; t++ {
		t := t
		wg.Add(1)
		go func() {
			defer wg.Done()
			for _, op := range ops[t] {
				switch op {
				case 0:
					if reg.CreatePipe("a", "std", "") == nil {
						creates++
					}
				case 1:
					reg.Close("a")
				case 2:
					reg.Delete("a")
				case 3:
					io, err := reg.Get("a")
					rt.Assert((err == nil) == (io != nil), "Get returned neither or both of a pipe and an error")
				}
			}
		}()
	}
	wg.Wait()
	rt.Unstub("(*sync.Mutex).Lock")
	verifC26grace()
	rt.Reach("settled")
	d := reg.Dump()
	_, listed := d["a"]
	_, err := reg.Get("a")
	rt.Assert(listed == (err == nil), "registry inconsistent: listing and look-up disagree")
	_, err = reg.Get("null")
	rt.Assert(err == nil, "the null pipe disappeared")
	{
		// names are unique among live pipes: without a close or delete in the history at most
		// one creation of the name can ever have been accepted (the pre-existing pipe counts)
		removes, tried := false, false
		for t := range ops {
			for _, op := range ops[t] {
				if op == 1 || op == 2 {
					removes = true
				}
				if op == 0 {
					tried = true
				}
			}
		}
		if !removes {
			accepted := creates + verifC26pre
			rt.Assert(accepted <= 1, "two creations of the same live name were both accepted")
			if tried {
				rt.Assert(accepted == 1 && listed, "a creation of a free name was refused or the pipe is not listed")
				rt.Reach("create-unique")
			}
		}
	}
	if creates == 0 {
		closes := false
		for t := range ops {
			for _, op := range ops[t] {
				if op == 1 || op == 2 {
					closes = true
				}
			}
		}
		if closes {
			rt.Assert(!listed, "a closed pipe is still there after its grace period")
			rt.Reach("closed-and-gone")
		}
	}
}
