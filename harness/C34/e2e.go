// Package c34 - end-to-end observation for C34: the text that tab-completion would execute
// (Source[:LastFlowToken] when the tokenizer says "safe") is really executed by the murex
// interpreter, with `rm` defined as a marker builtin. Observable: the marker ran.
package c34

import (
	"sync"

	"github.com/lmorg/murex/lang"
	"github.com/lmorg/murex/lang/types"
	"github.com/lmorg/murex/utils/parser"
	"github.com/lmorg/murex/zzverif/mx"
	"github.com/lmorg/murex/zzverif/rt"
)

var (
	verifC34mu     sync.Mutex
	verifC34ran    bool
	verifC34once   sync.Once
	verifC34Bodies = []string{
		"rm;(",        // C34-flow-token-then-paren
		"rm()",        // C34-inline-call (expression)
		"out rm(x)",   // C34-inline-call (statement parameter)
		"rm x",        // tokenizer says unsafe: never executed
		"out x",       // safe
		"if {rm}",     // block: tokenizer says unsafe
		"out 'rm(x)'", // quoted: nothing runs
	}
	verifC34Flows = []string{"; ", " | ", " -> "}
	verifC34Tails = []string{"out ", "[ "}
)

func verifC34Define() {
	rt.Persistent(func() {
		verifC34once.Do(func() {
			mx.Init()
			lang.DefineFunction("rm", func(p *lang.Process) error {
				verifC34mu.Lock()
				verifC34ran = true
				verifC34mu.Unlock()
				return nil
			}, types.Null)
		})
	})
}

// VerifC34Observed: bodies x flow tokens x completed commands.
func VerifC34Observed() {
	verifC34Define()
	b := rt.Choice("body", len(verifC34Bodies))
	f := rt.Choice("flow", len(verifC34Flows))
	t := rt.Choice("tail", len(verifC34Tails))
	line := []rune(verifC34Bodies[b] + verifC34Flows[f] + verifC34Tails[t])
	rt.Note("line=" + string(line))
	rt.KnownFinding("C34-flow-token-then-paren", b == 0)
	rt.KnownFinding("C34-inline-call", b == 1 || b == 2)
	pt, _ := parser.Parse(line, 0)
	rt.Reach("tokenized")
	if pt.Unsafe || pt.ExpectFunc || pt.VarSigil != "" || pt.FuncName == "^" {
		rt.Reach("not-executed")
		return
	}
	rt.Reach("executed")
	verifC34mu.Lock()
	verifC34ran = false
	verifC34mu.Unlock()
	// what shell/autocomplete/dynamic.go:93-98 does
	_, _, _, _ = mx.Run(string(pt.Source[:pt.LastFlowToken]))
	verifC34mu.Lock()
	ran := verifC34ran
	verifC34mu.Unlock()
	rt.Assert(!ran, "tab-completion executed a command that is not on the safe list (marker builtin `rm` ran)")
}
