package expressions

// C34 - Autocomplete never runs a line containing unsafe commands.
//
// Real code executed: parser.Parse (the tokenizer whose Unsafe / LastFlowToken fields gate
// `cmdline.Execute(Source[:LastFlowToken])` in shell/autocomplete/dynamic.go:93) and
// expressions.ParseBlock / parseExpression (the real block parser, i.e. what Fork.Execute
// would compile and run for that prefix).
//
// The walker below is the oracle side: it lists what the *real* parser would execute in the
// prefix. It never looks at the tokenizer's own state.

import (
	"github.com/lmorg/murex/lang/expressions/symbols"
	"github.com/lmorg/murex/utils/parser"
	"github.com/lmorg/murex/zzverif/rt"
)

// verifC34Tokens is the vocabulary, most important first (param k selects a prefix of it).
var verifC34Tokens = []string{
	"rm",  // a command that is not on the safe list
	"out", // a command on the safe list
	" ",
	";",
	"(",
	")",
	"|",
	"{",
	"}",
	"=",
	"x",
	"'",
	"if",
	"&&",
	"->",
	">",
	"\"",
	"\\",
	"${",
	"$v",
	":",
	"<x>",
	"\n",
	"?",
}

func verifC34Line(n, k int) []rune {
	var line []rune
	for i := 0; i < n; i++ {
		t := rt.Choice("tok", k)
		line = append(line, []rune(verifC34Tokens[t])...)
	}
	return line
}

// commands on the safe list that run the code blocks they are given (murex docs: if, try,
// trypipe, catch, and, or, while, for, foreach, formap, time and their ! forms)
var verifC34BlockRunners = map[string]bool{
	"if": true, "try": true, "trypipe": true, "catch": true, "and": true, "or": true, "!and": true,
	"!or": true, "while": true, "!while": true, "for": true, "foreach": true, "formap": true, "time": true,
}

func verifC34IsSafeName(name string) bool {
	for _, s := range parser.GetSafeCmds() {
		if s == name {
			return true
		}
	}
	return false
}

func verifC34Plain(r []rune) bool {
	for _, c := range r {
		switch c {
		case '\'', '"', '\\', '$', '@', '`', '%', '~', '*', '?', '{', '}', '(', ')':
			return false
		}
	}
	return true
}

// verifC34SubShells returns the bodies of the sub-shells ( ${...} / @{...} ) in a piece of raw
// code that are outside single quotes and not escaped (language guide: single quotes and `\`
// suppress expansion; double quotes and parenthesis quotes do not).
func verifC34SubShells(raw []rune) (bodies [][]rune, undetermined bool) {
	single, double := false, false
	for i := 0; i < len(raw); i++ {
		c := raw[i]
		switch {
		case single:
			if c == '\'' {
				single = false
			}
		case c == '\\':
			i++
		case c == '"':
			double = !double
		case c == '\'' && !double:
			single = true
		case c == '`', c == '#':
			// back-tick quotes / comments: not modelled by this scanner
			return nil, true
		case (c == '$' || c == '@') && i+1 < len(raw) && raw[i+1] == '{':
			p := NewParser(nil, raw[i:], 0)
			value, _, err := p.parseSubShell(false, c, varAsString)
			if err != nil || len(value) < 3 {
				return nil, true
			}
			bodies = append(bodies, value[2:len(value)-1])
			i += len(value) - 1
		}
	}
	return
}

type verifC34Result struct {
	bad          string // non-empty: something the statement forbids would be executed
	undetermined bool   // the walker cannot tell what would run (path left outside the claim)
}

func (r *verifC34Result) merge(o verifC34Result) {
	if r.bad == "" {
		r.bad = o.bad
	}
	r.undetermined = r.undetermined || o.undetermined
}

// verifC34Walk: what would Fork.Execute(block) run?
func verifC34Walk(block []rune, depth int) (res verifC34Result) {
	if depth > 4 {
		res.undetermined = true
		return
	}
	tree, err := ParseBlock(block)
	if err != nil {
		// does not compile: Fork.Execute returns the error and runs nothing
		return
	}
	for i := range *tree {
		f := (*tree)[i]
		isExpr := len(f.Command) > 0 && &f.Command[0] == &expressionFunctionName[0]

		// sub-shells anywhere in the statement / expression
		bodies, und := verifC34SubShells(f.Raw)
		res.undetermined = res.undetermined || und
		for _, b := range bodies {
			sub := verifC34Walk(b, depth+1)
			if sub.bad != "" {
				sub.bad = "sub-shell: " + sub.bad
			}
			res.merge(sub)
		}

		if isExpr {
			res.merge(verifC34Expr(f.Raw, depth))
			continue
		}

		name := f.CommandName()
		switch {
		case verifC34Plain(name):
		case len(name) >= 2 && (name[0] == '\'' || name[0] == '"') && name[len(name)-1] == name[0] && verifC34Plain(name[1:len(name)-1]):
			name = name[1 : len(name)-1]
		case len(name) == 1 && name[0] == '(':
			// the deprecated `(` quote command
		default:
			res.undetermined = true
			continue
		}
		if !verifC34IsSafeName(string(name)) {
			if res.bad == "" {
				res.bad = "command not on the safe list: " + string(name)
			}
			continue
		}
		if verifC34BlockRunners[string(name)] {
			for _, p := range f.Parameters {
				if len(p) >= 2 && p[0] == '{' && p[len(p)-1] == '}' {
					sub := verifC34Walk(p[1:len(p)-1], depth+1)
					if sub.bad != "" {
						sub.bad = "block run by " + string(name) + ": " + sub.bad
					}
					res.merge(sub)
				}
			}
		}
		// inline function calls in parameters: name(args) -- the statement parser turns a
		// parameter made of a bare word directly followed by ( into a call of that command
		for _, p := range f.Parameters {
			res.merge(verifC34Call(p, depth))
		}
	}
	return
}

// verifC34Call: raw text `name(args...)` => the command `name args...` is executed.
func verifC34Call(p []rune, depth int) (res verifC34Result) {
	j := 0
	for j < len(p) && isBareChar(p[j]) {
		j++
	}
	if j == 0 || j >= len(p) || p[j] != '(' || p[len(p)-1] != ')' {
		return
	}
	blk := append(append([]rune{}, p[:j]...), ' ')
	blk = append(blk, p[j+1:len(p)-1]...)
	sub := verifC34Walk(blk, depth+1)
	if sub.bad != "" {
		sub.bad = "inline call " + string(p) + ": " + sub.bad
	}
	return sub
}

// verifC34Expr: an expression runs an assignment if it contains an assignment operator, and
// runs commands through name(args) calls.
func verifC34Expr(raw []rune, depth int) (res verifC34Result) {
	if depth > 4 {
		res.undetermined = true
		return
	}
	p := NewParser(nil, raw, 0)
	if err := p.parseExpression(false, false); err != nil {
		res.undetermined = true
		return
	}
	for _, node := range p.ast {
		switch {
		case node.key >= symbols.Assign && node.key <= symbols.AssignOrMerge:
			if res.bad == "" {
				res.bad = "assignment"
			}
		case node.key == symbols.Calculated:
			v := node.value
			if len(v) > 1 && (v[0] == '$' || v[0] == '@') {
				if v[1] != '{' {
					res.undetermined = true // lambdas etc.
				}
				continue // sub-shells are handled by the caller
			}
			res.merge(verifC34Call(v, depth))
		case node.key == symbols.SubExpressionBegin:
			// the sub-expression text follows in raw; parse it on its own
			start := node.pos
			if start < 0 || start >= len(raw) {
				res.undetermined = true
				continue
			}
			// find the matching text through the real parser
			q := NewParser(nil, raw[start:], 0)
			if raw[start] != '(' {
				// position convention differs: search the opening parenthesis to the left
				res.undetermined = true
				continue
			}
			s, err := q.parseSubExpression(false)
			if err != nil {
				res.undetermined = true
				continue
			}
			inner := []rune(s.(string))
			if len(inner) >= 2 {
				res.merge(verifC34Expr(inner[1:], depth+1))
			}
		}
	}
	return
}

// verifC34KnownFlowParen: a `(` occurs after a flow token ( ; | && -> => ) that directly follows
// a non-blank rune (the command name before the flow token is never looked up, and `(`
// replaces the pending command name by the safe name "(").
func verifC34KnownFlowParen(line []rune) bool {
	for s := 1; s < len(line); s++ {
		flow := false
		switch line[s] {
		case ';', '|':
			flow = true
		case '&':
			flow = s+1 < len(line) && line[s+1] == '&'
		case '-', '=':
			flow = s+1 < len(line) && line[s+1] == '>'
		}
		if !flow || line[s-1] == ' ' || line[s-1] == '\t' {
			continue
		}
		for j := s + 1; j < len(line); j++ {
			if line[j] == '(' {
				return true
			}
		}
	}
	return false
}

// verifC34KnownEqualsPrefix: `=` directly followed by a word character (`=out`): the tokenizer
// drops the `=` from the command name it looks up, the block parser does not.
func verifC34KnownEqualsPrefix(line []rune) bool {
	for i := 0; i+1 < len(line); i++ {
		if line[i] == '=' && isBareChar(line[i+1]) {
			return true
		}
	}
	// a run of `=` at command position (`== ; out `, `===|out `): the tokenizer skips it
	for i := 0; i < len(line); i++ {
		if line[i] != '=' || (i > 0 && line[i-1] == '=') {
			continue
		}
		j := i - 1
		for j >= 0 && (line[j] == ' ' || line[j] == '\t') {
			j--
		}
		if j < 0 {
			return true
		}
		switch line[j] {
		case ';', '|', '\n', '{', '&', '>', '?':
			return true
		}
	}
	return false
}

// verifC34Check (used by both harnesses): for every line of n tokens, if tab-completion would consult a dynamic
// completer (tab.go: no variable being typed, a command name has been read) and the tokenizer
// says "safe", then the text it would run, Source[:LastFlowToken], runs only safe commands, no
// assignment, no file redirection, no sub-shell running something else.
func verifC34Check(line []rune) {
	line = line[:len(line):len(line)] // no spare capacity: reading past the end must not go unnoticed
	rt.Note("line=" + string(line))
	rt.KnownFinding("C34-flow-token-then-paren", verifC34KnownFlowParen(line))
	rt.KnownFinding("C34-equals-prefix", verifC34KnownEqualsPrefix(line))
	rt.KnownFinding("C34-inline-call", verifC34KnownInlineCall(line))
	rt.KnownFinding("C34-empty-quoted-command", verifC34KnownEmptyQuoted(line))
	rt.KnownFinding("C34-assign-paren-value", verifC34KnownAssignParen(line))
	if rt.Param("setaside") == 1 {
		// diagnostic runs only (never set in spec.json): leave the finding families out to
		// see whether anything else is reported
		rt.Assume(!verifC34KnownFlowParen(line) && !verifC34KnownEqualsPrefix(line) && !verifC34KnownInlineCall(line) && !verifC34KnownEmptyQuoted(line) && !verifC34KnownAssignParen(line))
	}
	pt, _ := parser.Parse(line, 0)
	rt.Reach("tokenized")
	if pt.Unsafe {
		rt.Reach("verdict-unsafe")
		return
	}
	// shell/tab.go reaches autocomplete.MatchFlags (and so matchDynamic) only then:
	if pt.ExpectFunc || pt.VarSigil != "" || pt.FuncName == "^" {
		rt.Reach("no-dynamic-completion")
		return
	}
	rt.Reach("verdict-safe")
	prefix := pt.Source[:pt.LastFlowToken]
	if len(prefix) > 0 {
		rt.Reach("verdict-safe-nonempty-prefix")
	}
	res := verifC34Walk(prefix, 0)
	if res.bad != "" {
		rt.Note("would run: " + res.bad + " in `" + string(prefix) + "`")
	}
	rt.Assert(res.bad == "", "tokenizer says safe, but the text tab-completion would execute runs an unsafe command, an assignment or a redirection")
	if res.undetermined {
		rt.Reach("undetermined-by-walker")
	}
}

// verifC34KnownInlineCall: a word directly followed by `(` ... `)` (inline call syntax
// `cmd(args)`), which the tokenizer reads as a parenthesis quote.
func verifC34KnownInlineCall(line []rune) bool {
	for i := 0; i+1 < len(line); i++ {
		if isBareChar(line[i]) && line[i+1] == '(' {
			return true
		}
	}
	return false
}

// VerifC34Gate: every line of n tokens out of the first k tokens of the vocabulary.
func VerifC34Gate() {
	n, k := rt.Param("n"), rt.Param("k")
	if k > len(verifC34Tokens) {
		k = len(verifC34Tokens)
	}
	verifC34Check(verifC34Line(n, k))
}

var (
	verifC34Flows = []string{"; ", ";", " | ", "&&", " -> ", "|"}
	verifC34Tails = []string{"out ", "[ ", "x: "}
)

// VerifC34Tail: lines of the shape <n tokens> <flow token> <command being completed>, i.e. the
// shape in which tab-completion of a parameter really executes the text before the flow token.
func VerifC34Tail() {
	n, k, f, t := rt.Param("n"), rt.Param("k"), rt.Param("flows"), rt.Param("tails")
	if k > len(verifC34Tokens) {
		k = len(verifC34Tokens)
	}
	if f > len(verifC34Flows) {
		f = len(verifC34Flows)
	}
	if t > len(verifC34Tails) {
		t = len(verifC34Tails)
	}
	line := verifC34Line(n, k)
	line = append(line, []rune(verifC34Flows[rt.Choice("flow", f)])...)
	line = append(line, []rune(verifC34Tails[rt.Choice("tail", t)])...)
	verifC34Check(line)
}

var (
	verifC34Payloads = []string{"${rm x}", "@{rm}", "${out x}", "${ rm }"}
	verifC34Wraps    = [][2]string{{"", ""}, {"(", ")"}, {"\"", "\""}, {"'", "'"}, {"((", "))"}, {"%(", ")"}, {"{", "}"}, {"[", "]"}, {"%[", "]"}, {"(\"", "\")"}, {"\"(", ")\""}, {"('", "')"}}
	verifC34Fill     = []string{"", "x", " ", "\\", "$", "("}
	verifC34Cmds     = []string{"out ", "", "if ", "try ", "out x", "out: "}
)

// VerifC34Embed: a sub-shell (the one construct that runs code from inside a parameter) embedded in
// every quoting context: <command><open><filler><sub-shell><filler><close><flow token><tail>.
func VerifC34Embed() {
	pick := func(name string, pool []string, n int) string {
		if n > len(pool) {
			n = len(pool)
		}
		return pool[rt.Choice(name, n)]
	}
	w := rt.Param("wraps")
	if w > len(verifC34Wraps) {
		w = len(verifC34Wraps)
	}
	wrap := verifC34Wraps[rt.Choice("wrap", w)]
	line := pick("cmd", verifC34Cmds, rt.Param("cmds")) + wrap[0] + pick("pre", verifC34Fill, rt.Param("fill")) +
		pick("payload", verifC34Payloads, rt.Param("payloads")) + pick("post", verifC34Fill, rt.Param("fill")) + wrap[1] +
		pick("flow", verifC34Flows, rt.Param("flows")) + pick("tail", verifC34Tails, rt.Param("tails"))
	rt.Reach("embedded")
	verifC34Check([]rune(line))
}

var (
	verifC34Lists     = []string{`["out","["]`, `["rm"]`, `["out","rm","["]`, `[]`, `["x","out"]`}
	verifC34ListLines = []string{"out x | [ ", "rm x | [ ", "rm x; out ", "out x -> [ ", "x | [ ", "out ${rm} | [ ", "rm | out | [ "}
)

// VerifC34List: the safe list is configuration (`config set shell safe-commands ...`): it is
// written twice (any two lists of the pool, through the config setter parser.WriteSafeCmds) and
// the gate is then checked against the list as it stands - a command taken off the list must not
// be treated as safe any longer, a command put on it may be.
func VerifC34List() {
	orig := parser.GetSafeCmds()
	restore := "["
	for i, c := range orig {
		if i > 0 {
			restore += ","
		}
		restore += "\"" + c + "\""
	}
	restore += "]"
	defer parser.WriteSafeCmds(restore)

	rt.Assert(parser.WriteSafeCmds(verifC34Lists[rt.Choice("first", len(verifC34Lists))]) == nil, "the safe list cannot be written")
	rt.Assert(parser.WriteSafeCmds(verifC34Lists[rt.Choice("second", len(verifC34Lists))]) == nil, "the safe list cannot be written")
	rt.Reach("list-written")
	verifC34Check([]rune(verifC34ListLines[rt.Choice("line", len(verifC34ListLines))]))
}

// verifC34KnownEmptyQuoted: a quoted string without any word character or with a blank in it
// ('', "", ' ', ';', ' out') at command position (start of the
// line, after a blank or a flow token) - an empty
// command name: the tokenizer calls the line safe although murex then runs something that is
// not on the list (an empty name resolves to the first PATH directory; with parameters the first
// parameter is run as the command: `"" rm x` runs rm).
func verifC34KnownEmptyQuoted(line []rune) bool {
	for i := 0; i+1 < len(line); i++ {
		if line[i] != '\'' && line[i] != '"' {
			continue
		}
		j := i + 1
		blank, word := false, false
		for j < len(line) && line[j] != line[i] {
			if !isBareChar(line[j]) {
				blank = true // anything that is not a plain word character
			}
			if isBareChar(line[j]) {
				word = true
			}
			j++
		}
		if j < len(line) && line[j] == line[i] && (blank || !word) {
			if i == 0 {
				return true
			}
			switch line[i-1] {
			case ' ', '\t', '\n', '|', ';', '&', '>', '{', '(':
				return true
			}
		}
	}
	return false
}

// verifC34KnownAssignParen: `name=(`: an assignment whose value starts with a parenthesis quote;
// the tokenizer reads the `(` as the start of a quoted parameter and never sees the assignment.
func verifC34KnownAssignParen(line []rune) bool {
	for i := 1; i+1 < len(line); i++ {
		if line[i] == '=' && line[i+1] == '(' && isBareChar(line[i-1]) {
			return true
		}
	}
	return false
}

// verifC34KnownLines: one line per open finding of the gate (so that every tier re-confirms it),
// plus one unproblematic line.
var verifC34KnownLines = []string{"out x; out ", "rm=(); out ", "'';(", "=out;(", "rm(out); out "}

func VerifC34KnownLines() {
	verifC34Check([]rune(verifC34KnownLines[rt.Choice("line", len(verifC34KnownLines))]))
}
