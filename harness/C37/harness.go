package parser

// C37 - Syntax highlighting never changes the typed text.
// Real code executed: parser.Parse (the tokenizer behind highlighting and autocompletion).

import (
	"github.com/lmorg/murex/zzverif/rt"
)

// verifInput returns an arbitrary command line of n runes over printable ASCII, newline and tab.
func verifInput(n int) []rune {
	r := rt.Runes("line", n)
	for i := range r {
		c := r[i]
		rt.Assume(rt.Or(rt.And(c >= ' ', c <= '~'), rt.Or(c == '\n', c == '\t')))
	}
	return r
}

// verifStripANSI removes ESC [ ... m sequences (written from the ECMA-48 SGR grammar,
// not from murex's own ansi package).
func verifStripANSI(s string) (out []byte, wellFormed bool) {
	wellFormed = true
	for i := 0; i < len(s); i++ {
		if s[i] != 0x1b {
			out = append(out, s[i])
			continue
		}
		// ESC '[' params 'm'
		if i+1 >= len(s) || s[i+1] != '[' {
			return out, false
		}
		j := i + 2
		for j < len(s) && ((s[j] >= '0' && s[j] <= '9') || s[j] == ';') {
			j++
		}
		if j >= len(s) || s[j] != 'm' {
			return out, false
		}
		i = j
	}
	return
}

// verifKnownC37: `\` followed by `-` or `=` and then `>` (escaped arrow pipe).
func verifKnownEscapedArrow(r []rune) bool {
	k := false
	for i := 0; i+2 < len(r); i++ {
		k = rt.Or(k, rt.And(r[i] == '\\', rt.And(rt.Or(r[i+1] == '-', r[i+1] == '='), r[i+2] == '>')))
	}
	return k
}

func VerifC37Highlight() {
	n := rt.Param("n")
	line := verifInput(n)
	rt.KnownFinding("C37-escaped-arrow", verifKnownEscapedArrow(line))
	_, hl := Parse(line, 0)
	rt.Reach("parsed")
	stripped, ok := verifStripANSI(hl)
	rt.Assert(ok, "highlighted text contains a broken ANSI sequence")
	rt.Assert(len(stripped) == len(line), "highlighting changed the length of the text")
	rt.Assert(string(stripped) == string(line), "highlighting changed the typed text")
}
