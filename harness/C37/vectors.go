package parser

// Vectors: the inputs of the repository's own parser tests (utils/parser/parser_test.go) plus a few
// typical command lines, pushed through the real Parse in the engine (concrete mode) and natively.

import (
	"fmt"

	"github.com/lmorg/murex/zzverif/rt"
)

var verifC37corpus = []string{
	"\"out foo bar",
	"\"out foo bar\"",
	"\"out\" foo bar",
	"'out foo bar",
	"'out foo bar'",
	"'out' foo bar",
	"(out foo bar",
	"(out foo bar)",
	"(out) foo bar",
	"out \"#\"",
	"out \"'\"",
	"out \"(\"",
	"out \")\"",
	"out \"Hello world",
	"out \"Hello world\"",
	"out \"Hello world'",
	"out \"\\\\\"",
	"out '\"'",
	"out '#'",
	"out '('",
	"out ')'",
	"out 'Hello world\"",
	"out '\\\\'",
	"out (\")",
	"out (#)",
	"out (')",
	"out (\\\\)",
	"out \\",
	"out \\ ",
	"out \\\"",
	"out \\#",
	"out \\$",
	"out \\'",
	"out \\(",
	"out \\)",
	"out \\-",
	"out \\:",
	"out \\;",
	"out \\<",
	"out \\>",
	"out \\?",
	"out \\@",
	"out \\[",
	"out \\\\",
	"out \\]",
	"out \\n",
	"out \\q",
	"out \\r",
	"out \\s",
	"out \\t",
	"out \\{",
	"out \\|",
	"out \\}",
	"out foo | grep bar",
	"a -> b => c",
	"if { true } then { out yes }",
	"out $foo @bar ${out x}",
	"echo a>>b",
	"ls ?| wc",
	"out: foo\tbar",
	"function f {\n out x\n}",
	"try { false || out b }",
	"x = 1 + 2; out $x",
	"cat <in> file |> out.txt",
	"out \\->",
	"%[1,2,3] -> [0]",
	"out \"a$b\" 'c$d' (e$f)",
	"}{",
	"sudo rm -rf /; out done",
	"out hello # comment",
	"[[ /a/b ]]",
	"out ~/foo",
	"a && b || c",
}

func VerifC37Vectors() {
	for _, line := range verifC37corpus {
		for _, pos := range []int{0, len(line) / 2} {
			pt, hl := Parse([]rune(line), pos)
			rt.Note(fmt.Sprintf("%q@%d => %q func=%q params=%q unsafe=%v loc=%d flow=%d pipe=%d", line, pos, hl, pt.FuncName, pt.Parameters, pt.Unsafe, pt.Loc, pt.LastFlowToken, pt.PipeToken))
		}
	}
}
