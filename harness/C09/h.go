// Package c09: C09 - Quoted string literals evaluate to exactly their contents.
//
// Real code executed: expressions.StatementParametersParser (ParseStatement exec=true: the `'`, `"`
// and `%(` cases of parseStatement -> parseString, parseStringInfix, parseParenthesis, nextParameter)
// and expressions.ExecuteExpr (parseExpression exec=true -> parseString / createStringAst,
// executeExpr, expAssign, lang.Variables.Set/GetString).
//
// The harness owns three *encoders* written from the documentation of the three quote forms; the
// oracle is decode(encode(content)) == content.
package c09

import (
	"github.com/lmorg/murex/lang"
	"github.com/lmorg/murex/lang/expressions"
	"github.com/lmorg/murex/lang/ref"
	"github.com/lmorg/murex/zzverif/mx"
	"github.com/lmorg/murex/zzverif/rt"
)

func newScope() *lang.Fork {
	mx.Init()
	fork := lang.ShellProcess.Fork(lang.F_FUNCTION | lang.F_NEW_MODULE | lang.F_NO_STDIN | lang.F_CREATE_STDOUT | lang.F_CREATE_STDERR)
	fork.Name.Set("verif-c09")
	fork.FileRef = &ref.File{Source: &ref.Source{Module: "murex/verif-c09"}}
	return fork
}

const nonASCII = 'é'

// content: n runes, each any 7-bit character (all controls, quotes, backslash, brackets,
// # ; | & $ ~ @ %, space, newline ...) or the non-ASCII rune é.
// (The engine keeps symbolic characters 7-bit, so the non-ASCII rune is placed concretely: at
// one position chosen by rt.Choice, or nowhere.)
func content(n int) []rune {
	r := rt.Runes("c", n)
	for i := range r {
		rt.Assume(rt.And(r[i] >= 0, r[i] < 0x80))
	}
	if rt.Param("nonascii") != 0 {
		if at := rt.Choice("nonascii-at", n+1); at < n {
			r[at] = nonASCII
		}
	}
	return r
}

// encodeSingle: 'content' ; content must not contain a single quote (there is no escape).
func encodeSingle(c []rune) []rune {
	out := []rune{'\''}
	for _, r := range c {
		rt.Assume(r != '\'')
		out = append(out, r)
	}
	return append(out, '\'')
}

// encodeDouble: "content" with \ " $ ~ always escaped by a backslash. When esc[i] is set the
// rune is written with a documented escape although it would not need one: space=\s tab=\t
// CR=\r LF=\n, any other character c (except the letters s t r n, which would mean something
// else) = \c.
func encodeDouble(c []rune, esc []bool) []rune {
	out := []rune{'"'}
	for i, r := range c {
		switch {
		case r == '\\' || r == '"' || r == '$' || r == '~':
			out = append(out, '\\', r)
		case !esc[i]:
			out = append(out, r)
		case (r == ' ' || r == '\t' || r == '\r' || r == '\n') && rt.Bool("rawesc"):
			// the other documented way to escape white space: \<char> with the character itself
			// (added after a seeded change to the handling of an escaped line feed was missed)
			out = append(out, '\\', r)
		case r == ' ':
			out = append(out, '\\', 's')
		case r == '\t':
			out = append(out, '\\', 't')
		case r == '\r':
			out = append(out, '\\', 'r')
		case r == '\n':
			out = append(out, '\\', 'n')
		case r == 's' || r == 't' || r == 'r' || r == 'n':
			out = append(out, r)
		default:
			out = append(out, '\\', r)
		}
	}
	return append(out, '"')
}

// encodeBrace: %(content); content has balanced parentheses and none of $ ~ (expansions) and
// { } ({NAME} ANSI constants are a documented expansion). Backslash is an ordinary character.
func encodeBrace(c []rune) []rune {
	out := []rune{'%', '('}
	depth := 0
	for _, r := range c {
		rt.Assume(rt.Not(rt.Or(rt.Or(r == '$', r == '~'), rt.Or(r == '{', r == '}'))))
		if r == '(' {
			depth++
		}
		if r == ')' {
			depth--
			if depth < 0 {
				rt.Assume(false)
			}
		}
		out = append(out, r)
	}
	if depth != 0 {
		rt.Assume(false)
	}
	return append(out, ')')
}

func encode(c []rune) []rune {
	switch rt.Choice("quote", 3) {
	case 0:
		return encodeSingle(c)
	case 1:
		esc := make([]bool, len(c))
		if rt.Param("esc") != 0 {
			for i := range esc {
				esc[i] = rt.Bool("esc")
			}
		}
		return encodeDouble(c, esc)
	default:
		return encodeBrace(c)
	}
}

func sameRunes(got string, want []rune) bool {
	g := []rune(got)
	if len(g) != len(want) {
		return false
	}
	ok := true
	for i := range g {
		ok = rt.And(ok, g[i] == want[i])
	}
	return ok
}

// VerifC09Statement: the literal as a command argument: `cmd <literal>`.
func VerifC09Statement() {
	c := content(rt.Param("n"))
	lit := encode(c)
	fork := newScope()
	rt.Reach("encoded")
	cmd, params, err := expressions.StatementParametersParser(verifC09join("cmd ", lit), fork.Process)
	rt.Assert(err == nil, "a well-formed quoted literal was rejected in argument position")
	if err != nil {
		return
	}
	rt.Reach("statement-parsed")
	rt.Assert(cmd == "cmd", "command name changed")
	rt.Assert(len(params) == 1, "a quoted literal did not give exactly one argument")
	if len(params) != 1 {
		return
	}
	rt.Assert(sameRunes(params[0], c), "argument value differs from the literal's contents")
}

// VerifC09Expression: the literal as an expression value: `x = <literal>`, then read $x.
func VerifC09Expression() {
	c := content(rt.Param("n"))
	lit := encode(c)
	fork := newScope()
	rt.Reach("encoded")
	_, err := expressions.ExecuteExpr(fork.Process, verifC09join("x = ", lit))
	rt.Assert(err == nil, "a well-formed quoted literal was rejected in expression position")
	if err != nil {
		return
	}
	rt.Reach("expression-executed")
	got, err := fork.Variables.GetString("x")
	rt.Assert(err == nil, "variable assigned from the literal cannot be read")
	rt.Assert(sameRunes(got, c), "expression value differs from the literal's contents")
}

// ---- end to end: the literal inside a block that is parsed (ParseBlock), compiled and run by
// the real interpreter. A Go builtin records the parameters it is started with.

var recorded [][]string

func init() {
	lang.DefineFunction("verifc09rec", func(p *lang.Process) error {
		recorded = append(recorded, p.Parameters.StringArray())
		return nil
	}, "null")
}

// knownEscapedDQuote: a double-quoted literal whose contents include a double quote (written \").
func knownEscapedDQuote(lit []rune, c []rune) bool {
	if lit[0] != '"' {
		return false
	}
	k := false
	for _, r := range c {
		k = rt.Or(k, r == '"')
	}
	return k
}

// known registers the finding; with -param skipknown=1 (development only, not used by the
// registered tiers) the matching inputs are assumed away to see whether anything else fails.
func known(pred bool) {
	rt.KnownFinding("C09-escaped-dquote-in-block", pred)
	if rt.Param("skipknown") != 0 {
		rt.Assume(rt.Not(pred))
	}
}

// VerifC09BlockArg: `verifc09rec <literal>` as a block: exactly one command runs and its only
// argument is the literal's contents.
func VerifC09BlockArg() {
	c := content(rt.Param("n"))
	lit := encode(c)
	known(knownEscapedDQuote(lit, c))
	fork := newScope()
	recorded = nil
	rt.Reach("encoded")
	_, err := fork.Execute(verifC09join("verifc09rec ", lit))
	rt.Assert(err == nil, "a block holding one command with a well-formed quoted literal was rejected")
	if err != nil {
		return
	}
	rt.Reach("block-ran")
	rt.Assert(len(recorded) == 1, "not exactly one command ran")
	if len(recorded) != 1 {
		return
	}
	rt.Assert(len(recorded[0]) == 1, "a quoted literal did not give exactly one argument")
	if len(recorded[0]) != 1 {
		return
	}
	rt.Assert(sameRunes(recorded[0][0], c), "argument value differs from the literal's contents")
}

// VerifC09BlockExpr: `x = <literal>` as a block, then $x is read from the scope.
func VerifC09BlockExpr() {
	c := content(rt.Param("n"))
	lit := encode(c)
	known(knownEscapedDQuote(lit, c))
	fork := newScope()
	rt.Reach("encoded")
	exit, err := fork.Execute(verifC09join("x = ", lit))
	rt.Assert(err == nil, "a block holding one assignment of a well-formed quoted literal was rejected")
	if err != nil {
		return
	}
	rt.Assert(exit == 0, "assignment of a well-formed quoted literal failed")
	rt.Reach("block-ran")
	got, err := fork.Variables.GetString("x")
	rt.Assert(err == nil, "variable assigned from the literal cannot be read")
	rt.Assert(sameRunes(got, c), "expression value differs from the literal's contents")
}

// ---- `$name` inside double / brace quotes: the value is spliced in as it is (C08's rule for the
// trailing line end applies: at most one trailing CR/LF of the value may be dropped).

func splicedOK(got, v string) bool {
	const pre, post = "pre ", " post"
	ok := false
	n := len(v)
	try := func(val string, cond bool) {
		if len(got) == len(pre)+len(val)+len(post) {
			ok = rt.Or(ok, rt.And(cond, got == pre+val+post))
		}
	}
	try(v, true)
	if n >= 1 {
		try(v[:n-1], rt.Or(v[n-1] == '\n', v[n-1] == '\r'))
	}
	if n >= 2 {
		try(v[:n-2], rt.And(v[n-2] == '\r', v[n-1] == '\n'))
	}
	return ok
}

// bracePair: v contains a `{` and, later, a `}`.
func bracePair(v string) bool {
	k := false
	for i := 0; i < len(v); i++ {
		for j := i + 1; j < len(v); j++ {
			k = rt.Or(k, rt.And(v[i] == '{', v[j] == '}'))
		}
	}
	return k
}

var expandForms = []string{
	`cmd "pre $v post"`,
	`cmd %(pre $v post)`,
	`x = "pre $v post"`,
	`x = %(pre $v post)`,
	`cmd "pre $(v) post"`,
}

// VerifC09Expand: v holds every ASCII text of 0..n bytes; the literal's value is `pre ` + v + ` post`.
func VerifC09Expand() {
	n := rt.Param("n")
	l := rt.Choice("len", n+1)
	form := rt.Choice("form", len(expandForms))
	v := rt.String("v", l)
	for i := 0; i < l; i++ {
		rt.Assume(v[i] < 0x80)
	}
	rt.KnownFinding("C09-ansi-const-in-variable-value", rt.And(form == 1, bracePair(v)))
	fork := newScope()
	err := fork.Variables.Set(fork.Process, "v", v, "str")
	rt.Assert(err == nil, "could not set a string variable")
	text := []rune(expandForms[form])
	var got string
	if text[0] == 'c' {
		_, params, err := expressions.StatementParametersParser(text, fork.Process)
		rt.Assert(err == nil, "literal with $v rejected in argument position")
		if err != nil {
			return
		}
		rt.Assert(len(params) == 1, "a quoted literal holding $v did not give exactly one argument")
		if len(params) != 1 {
			return
		}
		got = params[0]
	} else {
		_, err := expressions.ExecuteExpr(fork.Process, text)
		rt.Assert(err == nil, "literal with $v rejected in expression position")
		if err != nil {
			return
		}
		got, err = fork.Variables.GetString("x")
		rt.Assert(err == nil, "variable assigned from the literal cannot be read")
	}
	rt.Reach("expanded")
	rt.Assert(splicedOK(got, v), "the value of $v was not spliced into the literal unchanged")
}

// verifC09join: prefix + literal as a rune slice without spare capacity (a parser reading past
// the end of its input must not go unnoticed).
func verifC09join(prefix string, lit []rune) []rune {
	r := append([]rune(prefix), lit...)
	return r[:len(r):len(r)]
}
