package expressions

// C20 - Parsing any text terminates without panicking (block/expression/statement parsers).

import (
	"github.com/lmorg/murex/zzverif/rt"
)

func verifC20Input(n int) []rune {
	r := rt.Runes("text", n)
	for i := range r {
		c := r[i]
		rt.Assume(rt.Or(rt.And(c >= ' ', c <= '~'), rt.Or(c == '\n', c == '\t')))
	}
	return r
}

// VerifC20ParseBlock: ParseBlock returns (tree or error) for every text; a Go panic is an
// uncaught panic of the harness, non-termination shows up as the step bound.
func VerifC20ParseBlock() {
	text := verifC20Input(rt.Param("n"))
	tree, err := ParseBlock(text)
	rt.Reach("returned")
	rt.Assert(err != nil || tree != nil, "neither a tree nor an error")
}

// VerifC20Expression: the expression parser used by other parsers.
func VerifC20Expression() {
	text := verifC20Input(rt.Param("n"))
	_, _ = ExpressionParser(text, 0, false)
	rt.Reach("returned")
}

// verifC20Contexts: concrete openings that put the parser into its deeper states; the symbolic
// runes that follow then explore that state as exhaustively as the plain harness explores the
// start of a block.
var verifC20Contexts = []string{
	"a ", "a b", "a $b", "a $b[", "a @b[", "a $b[{", "a \"", "a '", "a (", "a {", "a %[", "a %{", "a %(", "a <",
	"a -> ", "a | b ", "a = ", "a #", "a /#", "a ${", "a @{", "a $(", "a \\", "a: ", "a b=", "$a = ", "a ? b ", "a && ", "a; ",
	"a \"$(", "a [", "a [[", "a *", "a ~", "%[", "%{a:", "a <b> ", "1 + ", "a => ", "a \u00e9", "\u00e9 ", "a \"\u00e9", "a #\u00e9",
	// commands whose parameters are parsed differently (variable names instead of values, ...)
	"set ", "unset ", "export ", "global ", "!set ", "is-null x ", "foreach ", "formap ", "set a=", "if ", "function f ", "test ", "alias a=",
}

// verifC20Tail: like verifC20Input plus carriage return (non-ASCII runes appear in contexts only:
// the engine does not encode symbolic non-ASCII runes into UTF-8).
func verifC20Tail(n int) []rune {
	r := rt.Runes("tail", n)
	for i := range r {
		c := r[i]
		rt.Assume(rt.Or(rt.Or(rt.And(c >= ' ', c <= '~'), rt.Or(c == '\n', c == '\t')), c == '\r'))
	}
	return r
}

// VerifC20Context: ParseBlock(context + tail) for every context of the pool and every tail of
// 0..n runes.
func VerifC20Context() {
	k := rt.Param("contexts")
	if k > len(verifC20Contexts) {
		k = len(verifC20Contexts)
	}
	ctx := verifC20Contexts[rt.Choice("context", k)]
	text := append([]rune(ctx), verifC20Tail(rt.Choice("len", rt.Param("n")+1))...)
	text = text[:len(text):len(text)] // no spare capacity: reading past the end must not go unnoticed
	tree, err := ParseBlock(text)
	rt.Reach("context-returned")
	rt.Assert(err != nil || tree != nil, "neither a tree nor an error")
}
