package expressions

// C20 - Parsing any text terminates without panicking (block/expression/statement parsers).

import (
	"github.com/lmorg/murex/zzverif/rt"
)

func verifC20Input(n int) []rune {
	r := rt.Runes("text", n)
	for i := range r {
		c := r[i]
		rt.Assume(rt.Or(rt.And(c >= ' ', c <= '~'), rt.Or(c == '\n', c == '\t')))
	}
	return r
}

// VerifC20ParseBlock: ParseBlock returns (tree or error) for every text; a Go panic is an
// uncaught panic of the harness, non-termination shows up as the step bound.
func VerifC20ParseBlock() {
	text := verifC20Input(rt.Param("n"))
	tree, err := ParseBlock(text)
	rt.Reach("returned")
	rt.Assert(err != nil || tree != nil, "neither a tree nor an error")
}

// VerifC20Expression: the expression parser used by other parsers.
func VerifC20Expression() {
	text := verifC20Input(rt.Param("n"))
	_, _ = ExpressionParser(text, 0, false)
	rt.Reach("returned")
}
