package parser

// C20 - the tokenizer used by syntax highlighting and autocompletion terminates without panicking.

import (
	"github.com/lmorg/murex/zzverif/rt"
)

func VerifC20Tokenizer() {
	n := rt.Param("n")
	r := rt.Runes("text", n)
	for i := range r {
		c := r[i]
		rt.Assume(rt.Or(rt.And(c >= ' ', c <= '~'), rt.Or(c == '\n', c == '\t')))
	}
	pos := rt.IntRange("pos", 0, n)
	pt, _ := Parse(r, pos)
	rt.Reach("returned")
	rt.Assert(pt.Loc <= n, "token location beyond the text")
}
