package parser

// C20 - the tokenizer used by syntax highlighting and autocompletion terminates without panicking.

import (
	"github.com/lmorg/murex/zzverif/rt"
)

func VerifC20Tokenizer() {
	n := rt.Param("n")
	r := rt.Runes("text", n)
	for i := range r {
		c := r[i]
		rt.Assume(rt.Or(rt.And(c >= ' ', c <= '~'), rt.Or(c == '\n', c == '\t')))
	}
	pos := rt.IntRange("pos", 0, n)
	pt, _ := Parse(r, pos)
	rt.Reach("returned")
	rt.Assert(pt.Loc <= n, "token location beyond the text")
}

// verifC20TokContexts: openings that put the tokenizer into its deeper states.
var verifC20TokContexts = []string{
	"a ", "a b", "a $b", "a $b[", "a @b[", "a \"", "a '", "a (", "a {", "a %[", "a %{", "a %(", "a <", "a -> ", "a | b ",
	"a = ", "a #", "a /#", "a ${", "a @{", "a \\", "a: ", "a; ", "a \"$(", "a [", "a [[", "a ~", "}", "a }", "a )", "a ]",
	"a \"${", "a '(", "a (\"", "a => ", "a ?", "a é", "^", "a ^", "a -> [", "a \t",
}

// VerifC20TokenizerContext: Parse(context + tail, pos) for every context, every tail of 0..n runes
// (printable ASCII, newline, tab, carriage return) and every cursor position.
func VerifC20TokenizerContext() {
	k := rt.Param("contexts")
	if k > len(verifC20TokContexts) {
		k = len(verifC20TokContexts)
	}
	ctx := []rune(verifC20TokContexts[rt.Choice("context", k)])
	tail := rt.Runes("tail", rt.Choice("len", rt.Param("n")+1))
	for i := range tail {
		c := tail[i]
		rt.Assume(rt.Or(rt.Or(rt.And(c >= ' ', c <= '~'), rt.Or(c == '\n', c == '\t')), c == '\r'))
	}
	text := append(ctx, tail...)
	text = text[:len(text):len(text)]
	pos := rt.IntRange("pos", 0, len(text))
	pt, _ := Parse(text, pos)
	rt.Reach("context-returned")
	rt.Assert(pt.Loc <= len(text), "token location beyond the text")
}
