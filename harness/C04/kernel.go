package lang

// C04 - &&, || and ; behave as documented in normal mode.
// Real code executed: runModeNormal, waitProcess, Process.SetTerminatedState/HasTerminated.
// Stub (contract of executeProcess, lang/process.go:218-224 and 419-435): a process that
// is already marked terminated is not run; otherwise it runs and sets its exit number;
// in both cases it is marked terminated and signals WaitForTermination.

import (
	"github.com/lmorg/murex/zzverif/rt"
)

type verifC04cmd struct {
	and, or, method bool
	exit            int
}

// verifC04model is the rule of the statement: returns per command whether it runs and the
// exit number it ends with.
func verifC04model(cmds []verifC04cmd) (ran []bool, exit []int) {
	n := len(cmds)
	ran = make([]bool, n)
	exit = make([]int, n)
	skipping := false
	for i := 0; i < n; i++ {
		skip := false
		if i > 0 {
			if cmds[i].and {
				skip = rt.Or(exit[i-1] != 0, skipping)
			} else if cmds[i].or {
				skip = rt.Or(exit[i-1] == 0, skipping)
			}
		}
		if skip {
			ran[i] = false
			exit[i] = exit[i-1]
			skipping = true
		} else {
			ran[i] = true
			exit[i] = cmds[i].exit
			skipping = false
		}
	}
	return
}

func VerifC04Normal() {
	n := rt.Param("n")
	cmds := make([]verifC04cmd, n)
	procs := make([]Process, n)
	ranReal := make([]bool, n)
	for i := 0; i < n; i++ {
		c := &cmds[i]
		if i > 0 {
			// how this command is joined to the previous one: ; (or newline), &&, ||, or a pipe
			c.and, c.or, c.method = rt.Bool("and"), rt.Bool("or"), rt.Bool("pipe")
			rt.Assume(rt.Not(rt.And(c.and, c.or)))
			rt.Assume(rt.Not(rt.And(c.method, rt.Or(c.and, c.or))))
		}
		c.exit = rt.IntRange("exit", -255, 255)
		procs[i].OperatorLogicAnd = c.and
		procs[i].OperatorLogicOr = c.or
		procs[i].IsMethod = c.method
		procs[i].WaitForTermination = make(chan bool)
		procs[i].Id = uint32(i)
	}
	rt.Stub("github.com/lmorg/murex/lang.executeProcess", func(p *Process) {
		i := int(p.Id)
		if !p.HasTerminated() {
			ranReal[i] = true
			p.ExitNum = cmds[i].exit
		}
		p.SetTerminatedState(true)
		p.WaitForTermination <- false
	})

	got := runModeNormal(&procs)
	rt.Reach("scheduler-returned")

	ran, exit := verifC04model(cmds)
	for i := 0; i < n; i++ {
		rt.Assert(ranReal[i] == ran[i], "a command ran although the rule says it is skipped, or was skipped although it must run")
	}
	// (a skipped command takes the exit number of the command before it: observable through
	// later && / || decisions and through the block's exit number)
	rt.Assert(got == exit[n-1], "the block's exit number is not that of its last command")
}
