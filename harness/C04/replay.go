package c04replay

// Native replay driver for C04: turns the model of VerifC04Normal into a murex block of
// Go builtins with the model's exit numbers, joined by the model's operators, runs it
// through the real parser, compiler and scheduler (Fork.Execute) and applies the same oracle.

import (
	"fmt"
	"strings"
	"sync"

	"github.com/lmorg/murex/lang"
	"github.com/lmorg/murex/lang/types"
	"github.com/lmorg/murex/zzverif/mx"
	"github.com/lmorg/murex/zzverif/rt"
)

func VerifC04Replay() {
	n := rt.Param("n")
	type cmd struct {
		and, or, method bool
		exit            int
	}
	cmds := make([]cmd, n)
	for i := 0; i < n; i++ {
		if i > 0 {
			cmds[i].and, cmds[i].or, cmds[i].method = rt.Bool("and"), rt.Bool("or"), rt.Bool("pipe")
			rt.Assume(!(cmds[i].and && cmds[i].or))
			rt.Assume(!(cmds[i].method && (cmds[i].and || cmds[i].or)))
		}
		cmds[i].exit = rt.IntRange("exit", -255, 255)
	}
	var mu sync.Mutex
	ranReal := make([]bool, n)
	var sb strings.Builder
	for i := 0; i < n; i++ {
		i := i
		name := fmt.Sprintf("verifc04cmd%d", i)
		lang.DefineMethod(name, func(p *lang.Process) error {
			mu.Lock()
			ranReal[i] = true
			mu.Unlock()
			p.ExitNum = cmds[i].exit
			return nil
		}, types.Any, types.Null)
		switch {
		case i == 0:
		case cmds[i].and:
			sb.WriteString(" && ")
		case cmds[i].or:
			sb.WriteString(" || ")
		case cmds[i].method:
			sb.WriteString(" | ")
		default:
			sb.WriteString(" ; ")
		}
		sb.WriteString(name)
	}
	_, _, got, err := mx.Run(sb.String())
	rt.Assert(err == nil, "block does not compile: "+sb.String())

	// the rule of the statement
	ran := make([]bool, n)
	exit := make([]int, n)
	skipping := false
	for i := 0; i < n; i++ {
		skip := false
		if i > 0 {
			if cmds[i].and {
				skip = exit[i-1] != 0 || skipping
			} else if cmds[i].or {
				skip = exit[i-1] == 0 || skipping
			}
		}
		if skip {
			exit[i] = exit[i-1]
			skipping = true
		} else {
			ran[i] = true
			exit[i] = cmds[i].exit
			skipping = false
		}
	}
	for i := 0; i < n; i++ {
		rt.Assert(ranReal[i] == ran[i], fmt.Sprintf("`%s`: command %d ran=%v, rule says %v", sb.String(), i, ranReal[i], ran[i]))
	}
	rt.Assert(got == exit[n-1], fmt.Sprintf("`%s`: block exit number %d, rule says %d", sb.String(), got, exit[n-1]))
}
