// Package c04: C04 end to end - the block text `c0 op c1 op ...` (op one of ` ; `, a newline,
// ` && `, ` || `, ` | `) goes through the real parser, compile (which turns the operator tokens
// into OperatorLogicAnd / OperatorLogicOr / IsMethod), Fork.Execute's run-mode selection,
// runModeNormal and the real executeProcess. The commands are Go builtins defined by the
// harness: each records that it ran, writes one letter and sets a symbolic exit number.
package c04

import (
	"fmt"
	"strings"
	"sync"

	"github.com/lmorg/murex/lang"
	"github.com/lmorg/murex/lang/types"
	"github.com/lmorg/murex/zzverif/mx"
	"github.com/lmorg/murex/zzverif/rt"
)

type cmd struct {
	and, or, pipe, nl bool
	exit              int
}

// model: the rule of the statement (the same as verifC04model of the kernel harness).
func model(cmds []cmd) (ran []bool, exit []int) {
	n := len(cmds)
	ran = make([]bool, n)
	exit = make([]int, n)
	skipping := false
	for i := 0; i < n; i++ {
		skip := false
		if i > 0 {
			if cmds[i].and {
				skip = rt.Or(exit[i-1] != 0, skipping)
			} else if cmds[i].or {
				skip = rt.Or(exit[i-1] == 0, skipping)
			}
		}
		if skip {
			ran[i] = false
			exit[i] = exit[i-1]
			skipping = true
		} else {
			ran[i] = true
			exit[i] = cmds[i].exit
			skipping = false
		}
	}
	return
}

func draw(n int) []cmd {
	cmds := make([]cmd, n)
	for i := 0; i < n; i++ {
		if i > 0 {
			c := &cmds[i]
			c.and, c.or, c.pipe, c.nl = rt.Bool("and"), rt.Bool("or"), rt.Bool("pipe"), rt.Bool("newline")
			rt.Assume(rt.Not(rt.And(c.and, c.or)))
			rt.Assume(rt.Not(rt.And(c.pipe, rt.Or(c.and, c.or))))
			rt.Assume(rt.Not(rt.And(c.nl, rt.Or(c.pipe, rt.Or(c.and, c.or)))))
		}
		cmds[i].exit = rt.IntRange("exit", -255, 255)
	}
	return cmds
}

func run(cmds []cmd, inFunction bool) {
	n := len(cmds)
	var mu sync.Mutex
	ranReal := make([]bool, n)
	var sb strings.Builder
	for i := 0; i < n; i++ {
		i := i
		name := fmt.Sprintf("verifc04cmd%d", i)
		lang.DefineMethod(name, func(p *lang.Process) error {
			mu.Lock()
			ranReal[i] = true
			mu.Unlock()
			p.Stdout.SetDataType(types.String)
			p.Stdout.Write([]byte{byte('a' + i)})
			p.ExitNum = cmds[i].exit
			return nil
		}, types.Any, types.String)
		switch {
		case i == 0:
		case cmds[i].and: // `if` on a symbolic Boolean: one path per operator pattern
			sb.WriteString(" && ")
		case cmds[i].or:
			sb.WriteString(" || ")
		case cmds[i].pipe:
			sb.WriteString(" | ")
		case cmds[i].nl:
			sb.WriteString("\n")
		default:
			sb.WriteString(" ; ")
		}
		sb.WriteString(name)
	}
	block := sb.String()
	if inFunction {
		block = "function verifc04fn {\n" + block + "\n}\nverifc04fn"
	}
	stdout, _, got, err := mx.Run(block)
	rt.Assert(err == nil, "block does not compile: "+block)
	rt.Reach("block-executed")

	ran, exit := model(cmds)
	want := ""
	skipped := false
	for i := 0; i < n; i++ {
		if ran[i] {
			rt.Assert(ranReal[i], fmt.Sprintf("`%s`: command %d did not run although the rule says it runs", block, i))
			if i+1 == n || !cmds[i+1].pipe {
				want += string(rune('a' + i))
			}
		} else {
			skipped = true
			rt.Assert(!ranReal[i], fmt.Sprintf("`%s`: command %d ran although the rule says it is skipped", block, i))
		}
	}
	rt.Assert(stdout == want, "`"+block+"`: stdout differs from what the rule says")
	rt.Assert(got == exit[n-1], "`"+block+"`: the block's exit number is not that of its last command")
	if skipped {
		rt.Reach("command-skipped")
	}
}

// VerifC04E2E: every operator pattern (incl. newline as separator) and symbolic exit numbers, at
// the top level of a program and as the body of a function.
func VerifC04E2E() {
	cmds := draw(rt.Param("n"))
	run(cmds, rt.Choice("in-function", 2) == 1)
}
