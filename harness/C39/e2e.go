// Package c39: C39 - break, continue and return affect only the named block.
//
// Programs are generated from a small AST (nested function / foreach / while / if with one
// conditional jump `if { cond } then { out p ; JUMP ; out q }` at a chosen place), rendered to
// murex text and run through the whole interpreter (mx.Run: parser, compile, schedulers,
// executeProcess, the real `foreach`, `while`, `if`, `function`, `break`, `continue`, `return`,
// `exitnum`, `out` builtins). The same AST is run by a reference interpreter written from the
// statement; its visible output must equal murex's stdout. Every condition (`v39c`, a harness
// builtin) takes the next of D symbolic Booleans, in both interpreters.
package c39

import (
	"fmt"
	"strings"
	"sync"

	"github.com/lmorg/murex/lang"
	"github.com/lmorg/murex/lang/types"
	"github.com/lmorg/murex/zzverif/mx"
	"github.com/lmorg/murex/zzverif/rt"
)

const (
	kOut = iota
	kIf
	kForeach
	kWhile
	kBreak
	kContinue
	kReturn
	kCall
	kExitnum
	kSeq // statements inlined into the enclosing block
	kFor // for { $i=0; $i<n; $i++ } { body }
)

type node struct {
	kind  int
	label string // out: text; break/continue: target block name; call: function name
	n     int    // foreach: number of items; return: exit number
	body  []node
}

type function struct {
	name string
	body []node
}

func out(s string) node { return node{kind: kOut, label: s} }

// ---- rendering to murex ------------------------------------------------------------

func render(sb *strings.Builder, ns []node, indent string) {
	for _, x := range ns {
		sb.WriteString(indent)
		switch x.kind {
		case kOut:
			sb.WriteString("out " + x.label + "\n")
		case kIf:
			sb.WriteString("if { v39c } then {\n")
			render(sb, x.body, indent+"  ")
			sb.WriteString(indent + "}\n")
		case kForeach:
			items := []string{}
			for i := 1; i <= x.n; i++ {
				items = append(items, fmt.Sprint(i))
			}
			sb.WriteString("%[" + strings.Join(items, " ") + "] -> foreach i {\n")
			render(sb, x.body, indent+"  ")
			sb.WriteString(indent + "}\n")
		case kWhile:
			sb.WriteString("while { v39c } {\n")
			render(sb, x.body, indent+"  ")
			sb.WriteString(indent + "}\n")
		case kBreak:
			sb.WriteString("break " + x.label + "\n")
		case kContinue:
			sb.WriteString("continue " + x.label + "\n")
		case kReturn:
			sb.WriteString(fmt.Sprintf("return %d\n", x.n))
		case kCall:
			sb.WriteString(x.label + "\n")
		case kExitnum:
			sb.WriteString("exitnum\n")
		case kSeq:
			sb.WriteString("\n")
			render(sb, x.body, indent)
		case kFor:
			sb.WriteString(fmt.Sprintf("for { $n=0; $n<%d; $n++ } {\n", x.n))
			render(sb, x.body, indent+"  ")
			sb.WriteString(indent + "}\n")
		}
	}
}

// ---- the reference interpreter (the statement) ---------------------------------------

type signal struct {
	kind int // 0 none, kBreak, kContinue, kReturn
	name string
	n    int
}

type ref struct {
	funcs    map[string]*function
	dec      []bool
	next     int
	out      []string
	lastExit int  // exit number of the last finished function call
	exitKnown bool // the statement fixes it (normal end: 0; return n: n)
}

func (r *ref) cond() bool {
	if r.next >= len(r.dec) {
		r.next++
		return false
	}
	c := r.dec[r.next]
	r.next++
	return c
}

func (r *ref) exec(ns []node) signal {
	for _, x := range ns {
		switch x.kind {
		case kOut:
			r.out = append(r.out, x.label)
		case kIf:
			if r.cond() {
				s := r.exec(x.body)
				if s.kind == kBreak && s.name == "if" {
					s = signal{} // the if block has ended; code after it carries on
				}
				if s.kind != 0 {
					return s
				}
			}
		case kForeach:
			for i := 0; i < x.n; i++ {
				s := r.exec(x.body)
				if s.kind == kBreak && s.name == "foreach" {
					break
				}
				if s.kind == kContinue && s.name == "foreach" {
					continue
				}
				if s.kind != 0 {
					return s
				}
			}
		case kWhile:
			for r.cond() {
				s := r.exec(x.body)
				if s.kind == kBreak && s.name == "while" {
					break
				}
				if s.kind == kContinue && s.name == "while" {
					continue
				}
				if s.kind != 0 {
					return s
				}
			}
		case kSeq:
			if s := r.exec(x.body); s.kind != 0 {
				return s
			}
		case kFor:
			for i := 0; i < x.n; i++ {
				s := r.exec(x.body)
				if s.kind == kBreak && s.name == "for" {
					break
				}
				if s.kind == kContinue && s.name == "for" {
					continue
				}
				if s.kind != 0 {
					return s
				}
			}
		case kBreak, kContinue:
			return signal{kind: x.kind, name: x.label}
		case kReturn:
			return signal{kind: kReturn, n: x.n}
		case kCall:
			f := r.funcs[x.label]
			s := r.exec(f.body)
			switch {
			case s.kind == 0:
				r.lastExit, r.exitKnown = 0, true // its last command is an `out`
			case s.kind == kReturn:
				r.lastExit, r.exitKnown = s.n, true
			case s.kind == kBreak && s.name == f.name:
				r.exitKnown = false // the statement does not give the exit number of a function ended by break
			default:
				// a jump whose target is not inside the current function: not generated
				panic("jump leaves the function")
			}
		case kExitnum:
			if r.exitKnown {
				r.out = append(r.out, fmt.Sprint(r.lastExit))
			} else {
				r.out = append(r.out, "?")
			}
		}
	}
	return signal{}
}

// ---- program generation ---------------------------------------------------------------

// jumps that may be placed; valid() tells whether the target encloses the jump inside the function
type jump struct {
	kind int
	name string
	n    int
}

func jumpNode(j jump) node {
	return node{kind: j.kind, label: j.name, n: j.n}
}

// the conditional jump: if { cond } then { out p ; JUMP ; out q }
func cj(j jump, bare bool) node {
	if bare {
		// unconditional: out p ; JUMP ; out q directly in the enclosing block
		return node{kind: kSeq, body: []node{out("p"), jumpNode(j), out("q")}}
	}
	return node{kind: kIf, body: []node{out("p"), jumpNode(j), out("q")}}
}

type shape struct {
	what   string
	blocks []string // names of the blocks enclosing the jump place inside function F (innermost last), without the jump's own if
	build  func(j node) []function
}

var shapes = []shape{
	{"foreach in function", []string{"fnF", "foreach"}, func(j node) []function {
		return []function{{"fnF", []node{out("a"), {kind: kForeach, n: 2, body: []node{out("b"), j, out("c")}}, out("d")}}}
	}},
	{"while in function", []string{"fnF", "while"}, func(j node) []function {
		return []function{{"fnF", []node{out("a"), {kind: kWhile, body: []node{out("b"), j, out("c")}}, out("d")}}}
	}},
	{"foreach in foreach", []string{"fnF", "foreach", "foreach"}, func(j node) []function {
		return []function{{"fnF", []node{out("a"), {kind: kForeach, n: 2, body: []node{out("b"),
			{kind: kForeach, n: 2, body: []node{out("c"), j, out("d")}}, out("e")}}, out("f")}}}
	}},
	{"while in foreach", []string{"fnF", "foreach", "while"}, func(j node) []function {
		return []function{{"fnF", []node{out("a"), {kind: kForeach, n: 2, body: []node{out("b"),
			{kind: kWhile, body: []node{out("c"), j, out("d")}}, out("e")}}, out("f")}}}
	}},
	{"foreach in while", []string{"fnF", "while", "foreach"}, func(j node) []function {
		return []function{{"fnF", []node{out("a"), {kind: kWhile, body: []node{out("b"),
			{kind: kForeach, n: 2, body: []node{out("c"), j, out("d")}}, out("e")}}, out("f")}}}
	}},
	{"if in function", []string{"fnF", "if"}, func(j node) []function {
		return []function{{"fnF", []node{out("a"), {kind: kIf, body: []node{out("b"), j, out("c")}}, out("d")}}}
	}},
	{"function called from a loop of another function", []string{"fnG"}, func(j node) []function {
		return []function{
			{"fnG", []node{out("g"), j, out("h")}},
			{"fnF", []node{out("a"), {kind: kForeach, n: 2, body: []node{out("b"), {kind: kCall, label: "fnG"}, {kind: kExitnum}, out("c")}}, out("d")}},
		}
	}},
	{"for in function", []string{"fnF", "for"}, func(j node) []function {
		return []function{{"fnF", []node{out("a"), {kind: kFor, n: 2, body: []node{out("b"), j, out("c")}}, out("d")}}}
	}},
	{"foreach in for", []string{"fnF", "for", "foreach"}, func(j node) []function {
		return []function{{"fnF", []node{out("a"), {kind: kFor, n: 2, body: []node{out("b"),
			{kind: kForeach, n: 2, body: []node{out("c"), j, out("d")}}, out("e")}}, out("f")}}}
	}},
	{"plain function", []string{"fnF"}, func(j node) []function {
		return []function{{"fnF", []node{out("a"), j, out("b")}}}
	}},
}

var jumps = []jump{
	{kBreak, "foreach", 0},
	{kBreak, "while", 0},
	{kBreak, "if", 0},
	{kBreak, "FUNC", 0}, // the function the jump is in
	{kContinue, "foreach", 0},
	{kContinue, "while", 0},
	{kReturn, "", 0},
	{kReturn, "", 3},
	{kBreak, "for", 0},
	{kContinue, "for", 0},
}

var (
	mu   sync.Mutex
	dec  []bool
	next int
)

func VerifC39Jumps() {
	d := rt.Param("d")
	dec = make([]bool, d)
	for i := range dec {
		dec[i] = rt.Bool("cond")
	}
	next = 0
	si := rt.Choice("shape", len(shapes))
	ji := rt.Choice("jump", len(jumps))
	bare := rt.Choice("bare", 2) == 1
	sh := shapes[si]
	j := jumps[ji]
	inner := sh.blocks[0]
	if sh.blocks[0] == "fnG" {
		inner = "fnG"
	}
	if j.name == "FUNC" {
		j.name = inner
	}
	// the statement speaks of a block "called name" enclosing the jump: other targets are left out
	// (`break if` always has one: the conditional jump's own if)
	if j.kind != kReturn && (j.name != "if" || bare) {
		found := false
		for _, b := range sh.blocks {
			if b == j.name {
				found = true
			}
		}
		rt.Assume(found)
	}
	// known defect: `continue <loop>` written directly in the loop's block (not inside an if) does nothing
	rt.KnownFinding("C39-continue-direct-child", bare && j.kind == kContinue && j.name == sh.blocks[len(sh.blocks)-1])
	funcs := sh.build(cj(j, bare))

	lang.DefineFunction("v39c", func(p *lang.Process) error {
		mu.Lock()
		k := next
		next++
		mu.Unlock()
		p.Stdout.SetDataType(types.Boolean)
		if k < len(dec) && dec[k] { // forks on the symbolic Boolean
			p.Stdout.Write([]byte("true"))
			return nil
		}
		p.Stdout.Write([]byte("false"))
		p.ExitNum = 1
		return nil
	}, types.Boolean)

	var sb strings.Builder
	fm := map[string]*function{}
	for i := range funcs {
		f := &funcs[i]
		fm[f.name] = f
		sb.WriteString("function " + f.name + " {\n")
		render(&sb, f.body, "  ")
		sb.WriteString("}\n")
	}
	main := []node{{kind: kCall, label: "fnF"}, {kind: kExitnum}, out("z")}
	render(&sb, main, "")

	stdout, _, _, err := mx.Run(sb.String())
	rt.Assert(err == nil, "program does not compile:\n"+sb.String())
	rt.Reach("program-ran")

	r := &ref{funcs: fm, dec: dec}
	r.exec(main)
	got := strings.Split(strings.TrimSuffix(stdout, "\n"), "\n")
	ok := len(got) == len(r.out)
	for i := 0; ok && i < len(got); i++ {
		if r.out[i] != "?" && r.out[i] != got[i] {
			ok = false
		}
	}
	rt.Assert(ok, "program:\n"+sb.String()+"printed ["+strings.Join(got, " ")+"], the statement says ["+strings.Join(r.out, " ")+"]")
	for _, l := range r.out {
		if l == "p" {
			rt.Reach("jump-taken")
			break
		}
	}
}

// ---- jumps out of a pipeline whose producer is still running ----

var runningPrograms = []struct {
	text string
	want string
}{
	{"function f39 { v39src -> foreach i { out p; JUMP; out q }; out r }\nf39; out s", ""},
	{"function f39 { v39src -> foreach i { if { true } then { out p; JUMP; out q } }; out r }\nf39; out s", ""},
	{"function f39 { v39src -> foreach i { v39src -> foreach j { out p; JUMP; out q } }; out r }\nf39; out s", ""},
}

// VerifC39Running: the jump (break <function>, return, return 0, return 3) is taken inside
// `producer -> foreach { ... }` while the producer (a builtin that emits two items and then runs
// until it is cancelled, like `yes` or a slow download) is still running: the function must end
// there - nothing after the jump in it runs, the code after the call runs - and must not hang.
// A second shape jumps out of an outer `while` the same way.
func VerifC39Running() {
	mx.Init()
	lang.DefineFunction("v39src", func(p *lang.Process) error {
		p.Stdout.SetDataType(types.String)
		if _, err := p.Stdout.Write([]byte("1\n2\n")); err != nil {
			return err
		}
		<-p.Context.Done()
		return nil
	}, types.String)
	jump := []string{"break f39", "return", "return 0", "return 3"}[rt.Choice("jump", 4)]
	var block, want string
	if shape := rt.Choice("shape", len(runningPrograms)+1); shape < len(runningPrograms) {
		block = strings.Replace(runningPrograms[shape].text, "JUMP", jump, 1)
		want = "p\ns\n"
	} else {
		rt.Assume(jump == "break f39")
		block = "$n=0; while { $n<1 } { $n=1; v39src -> foreach i { out p; break while; out q }; out r }; out s"
		want = "p\ns\n"
	}
	rt.Note(block)
	stdout, _, _, err := mx.Run(block)
	rt.Assert(err == nil, "the program does not compile")
	rt.Reach("running-returned")
	rt.Assert(stdout == want, "a jump out of a pipeline with a running producer did not end exactly the named block")
}
