// Package c31 - C31: `test unit` reports a test as passed exactly when the function's exit
// number, stdout and stderr satisfy every assertion of the plan.
//
// Real code executed: lang.GlobalUnitTests.Add / Run (-> runTest, runFunction, Fork.Execute of
// the function under test, the whole interpreter), regexp matching, Tests results.
// No stub: the function under test is a real murex function whose body is one Go builtin
// (registered through lang.DefineFunction) that writes symbolic bytes to stdout / stderr and
// sets a symbolic exit number. The same source is the native replay.
package c31

import (
	"sync"

	"github.com/lmorg/murex/lang"
	"github.com/lmorg/murex/lang/ref"
	"github.com/lmorg/murex/lang/types"
	"github.com/lmorg/murex/zzverif/mx"
	"github.com/lmorg/murex/zzverif/rt"
)

var (
	verifOnce sync.Once
	verifEmit struct {
		out, err []byte
		exit     int
		dt       string
	}
	verifFileRef = &ref.File{Source: &ref.Source{Module: "murex/verif-c31"}}
)

const verifFn = "verifc31fn"

func verifDefine() {
	rt.Persistent(func() {
		verifOnce.Do(func() {
			mx.Init()
			lang.DefineFunction("verifc31emit", func(p *lang.Process) error {
				if verifEmit.dt != "" {
					p.Stdout.SetDataType(verifEmit.dt)
				}
				if len(verifEmit.out) > 0 {
					if _, err := p.Stdout.Write(verifEmit.out); err != nil {
						return err
					}
				}
				if len(verifEmit.err) > 0 {
					if _, err := p.Stderr.Write(verifEmit.err); err != nil {
						return err
					}
				}
				p.ExitNum = verifEmit.exit
				return nil
			}, types.Any)
			lang.MxFunctions.Define(verifFn, nil, []rune("verifc31emit"), verifFileRef)
		})
	})
}

// ---- oracle side: regular expressions written out by hand ----

type verifRx struct {
	pattern string
	match   func(b []byte) bool
}

func verifIsDigit(c byte) bool { return rt.And(c >= '0', c <= '9') }

var verifRxPool = []verifRx{
	{"", nil},
	{"^a", func(b []byte) bool { return len(b) > 0 && b[0] == 'a' }},
	{"b$", func(b []byte) bool { return len(b) > 0 && b[len(b)-1] == 'b' }},
	{"^[0-9]+$", func(b []byte) bool {
		if len(b) == 0 {
			return false
		}
		ok := true
		for _, c := range b {
			ok = rt.And(ok, verifIsDigit(c))
		}
		return ok
	}},
	{"a.", func(b []byte) bool { // an 'a' followed by any character except newline
		ok := false
		for i := 0; i+1 < len(b); i++ {
			ok = rt.Or(ok, rt.And(b[i] == 'a', b[i+1] != '\n'))
		}
		return ok
	}},
}

func verifText(name string, n int) []byte {
	b := rt.Bytes(name, n)
	for _, c := range b {
		// printable ASCII and newline
		rt.Assume(rt.Or(rt.And(c >= ' ', c <= '~'), c == '\n'))
	}
	return b
}

func verifRun(plan *lang.UnitTestPlan) (passed bool, exitNum int) {
	fork := lang.ShellProcess.Fork(lang.F_FUNCTION | lang.F_NEW_MODULE | lang.F_NO_STDIN | lang.F_CREATE_STDOUT | lang.F_CREATE_STDERR)
	fork.Name.Set("verif-c31")
	fork.FileRef = verifFileRef
	if err := fork.Config.Set("test", "auto-report", false, verifFileRef); err != nil {
		rt.Fail("cannot switch test auto-report off: " + err.Error())
	}
	lang.GlobalUnitTests.Add(verifFn, plan, verifFileRef)
	passed = lang.GlobalUnitTests.Run(fork.Process, verifFn)
	return passed, fork.ExitNum
}

// VerifC31Text: exit number + match / regex / data-type assertions on one stream.
func VerifC31Text() {
	verifDefine()
	n := rt.Param("n")
	stream := rt.Choice("stream", 2) // 0: assertions on stdout, 1: on stderr
	text := verifText("text", rt.Choice("len", n+1))
	exit := rt.IntRange("exit", 0, 255)

	plan := new(lang.UnitTestPlan)
	plan.ExitNum = rt.IntRange("planExit", 0, 255)

	// Match assertion: absent, or a text of the same length as the output (other lengths
	// can never match), or - when the output is not empty - of another length
	match := ""
	switch rt.Choice("matchKind", 3) {
	case 1:
		match = string(verifText("match", len(text)))
	case 2:
		match = string(verifText("match", len(text)+1))
	}
	rx := verifRxPool[rt.Choice("regex", len(verifRxPool))]
	dtPool := []string{"", types.String, types.Json}
	emitDt := dtPool[rt.Choice("emitType", 3)]
	planDt := dtPool[rt.Choice("planType", 3)]

	verifEmit.exit = exit
	verifEmit.dt = emitDt
	if stream == 0 {
		verifEmit.out, verifEmit.err = text, nil
		plan.StdoutMatch, plan.StdoutRegex, plan.StdoutType = match, rx.pattern, planDt
	} else {
		verifEmit.out, verifEmit.err = nil, text
		plan.StderrMatch, plan.StderrRegex = match, rx.pattern
		// the statement does not say whether a plan without any stderr assertion accepts
		// output on stderr (the code does not): left out
		rt.Assume(!(match == "" && rx.pattern == "" && len(text) > 0))
	}

	// what the statement says
	want := exit == plan.ExitNum
	if match != "" {
		want = rt.And(want, string(text) == match)
	}
	if rx.pattern != "" {
		want = rt.And(want, rx.match(text))
	}
	if stream == 0 && planDt != "" {
		// data type of stdout as set by the function; a function that sets none is left out
		rt.Assume(emitDt != "")
		want = rt.And(want, planDt == emitDt)
	}

	passed, exitNum := verifRun(plan)
	rt.Reach("ran")
	if passed {
		rt.Reach("passed")
	} else {
		rt.Reach("failed")
	}
	rt.Assert(passed == want, "verdict of UnitTests.Run differs from 'every assertion of the plan holds'")
	rt.Assert((exitNum == 0) == want, "exit number of the test run does not reflect the verdict")
}

// ---- structured assertions (IsArray / IsMap / GreaterThan) on concrete documents ----

type verifDoc struct {
	text, dt       string
	isArray, isMap bool
	length         int // -1: the document has no length (GreaterThan can never hold)
}

var verifDocs = []verifDoc{
	{`[1,2,3]`, types.Json, true, false, 3},
	{`[]`, types.Json, true, false, 0},
	{`{"a":1,"b":2}`, types.Json, false, true, 2},
	{`"x"`, types.Json, false, false, -1},
	{`[1,`, types.Json, false, false, -1}, // not valid JSON
}

// VerifC31Structured: StdoutIsArray / StdoutIsMap / StdoutGreaterThan with a symbolic plan
// over a pool of concrete documents (their array/map/length facts are stated by hand above).
func VerifC31Structured() {
	verifDefine()
	d := verifDocs[rt.Choice("doc", len(verifDocs))]
	plan := new(lang.UnitTestPlan)
	plan.StdoutIsArray = rt.Bool("isArray")
	plan.StdoutIsMap = rt.Bool("isMap")
	plan.StdoutGreaterThan = rt.IntRange("greaterThan", 0, 4)
	verifEmit.out, verifEmit.err, verifEmit.exit, verifEmit.dt = []byte(d.text), nil, 0, d.dt

	want := true
	want = rt.And(want, rt.Implies(plan.StdoutIsArray, d.isArray))
	want = rt.And(want, rt.Implies(plan.StdoutIsMap, d.isMap))
	// "StdoutGreaterThan": the name says greater than, the code (and its messages) implement
	// greater than or equal; the statement only says "length": the boundary case is left out
	rt.Assume(plan.StdoutGreaterThan != d.length)
	want = rt.And(want, rt.Implies(plan.StdoutGreaterThan > 0, d.length > plan.StdoutGreaterThan))

	passed, exitNum := verifRun(plan)
	rt.Reach("ran")
	if passed {
		rt.Reach("passed")
	} else {
		rt.Reach("failed")
	}
	rt.Assert(passed == want, "verdict of UnitTests.Run differs from 'every assertion of the plan holds'")
	rt.Assert((exitNum == 0) == want, "exit number of the test run does not reflect the verdict")
}
