package index

// C16 - the `[` and `![` builtins themselves (builtins/core/index.index), including their
// recover() wrapper: a lookup must not end in an internal panic, whether murex catches it
// ("panic caught, please report this ...") or not.
// The data type "verifc16" is registered through the public lang.ReadIndexes /
// lang.ReadNotIndexes tables exactly like builtins/types/json does (IndexTemplateObject on the
// unmarshalled object), with a symbolic array instead of the JSON decoder.

import (
	"strings"

	"github.com/lmorg/murex/builtins/pipes/streams"
	"github.com/lmorg/murex/config"
	"github.com/lmorg/murex/lang"
	"github.com/lmorg/murex/lang/ref"
	"github.com/lmorg/murex/zzverif/rt"
)

var (
	verifC16object     any
	verifC16marshalled []any
)

func init() {
	f := func(p *lang.Process, params []string) error {
		obj := verifC16object
		return lang.IndexTemplateObject(p, params, &obj, func(x any) ([]byte, error) {
			verifC16marshalled = append(verifC16marshalled, x)
			return []byte("<marshalled>"), nil
		})
	}
	lang.ReadIndexes["verifc16"] = f
	lang.ReadNotIndexes["verifc16"] = f
}

func verifC16key(tag string, d int) (key string, k int) {
	neg := rt.Choice(tag+"_negative", 2) == 1
	nd := 1 + rt.Choice(tag+"_ndigits", d)
	b := rt.Bytes(tag+"_digits", nd)
	for i := range b {
		rt.Assume(rt.And(b[i] >= '0', b[i] <= '9'))
		k = k*10 + int(b[i]-'0')
	}
	key = string(b)
	if neg {
		key = "-" + key
		k = -k
	}
	return
}

// verifC16panicked: did the lookup end in an internal panic that murex caught? Under the engine
// the recover() itself is observed; natively (replay) only its user-visible form is available.
func verifC16panicked(err error) bool {
	if rt.Symbolic() {
		return rt.RecoveredPanics() > 0
	}
	return err != nil && strings.Contains(err.Error(), "panic caught")
}

// VerifC16IndexBuiltin: `<array> -> [k]` / `<array> -> ![k]` through the builtin.
func VerifC16IndexBuiltin() {
	n := rt.Choice("array_len", rt.Param("n")+1)
	v := make([]any, n)
	s := make([]string, n)
	for i := range v {
		s[i] = rt.String("element", 1)
		v[i] = s[i]
	}
	verifC16object = v
	verifC16marshalled = nil
	key, k := verifC16key("index", rt.Param("digits"))
	not := rt.Choice("not", 2) == 1
	if !not {
		verifC16known(k < -n)
	}

	p := new(lang.Process)
	p.Stdin = streams.NewStdin()
	p.Stdin.SetDataType("verifc16")
	p.Stdout = streams.NewStdin()
	p.Stderr = streams.NewStdin()
	p.IsMethod = true
	p.IsNot = not
	p.Config = config.InitConf.Copy()
	p.FileRef = &ref.File{Source: &ref.Source{Module: "murex/verif"}}
	if not {
		p.Name.Set("![")
	} else {
		p.Name.Set("[")
	}
	if rt.Choice("bracket_separate", 2) == 1 {
		p.Parameters.DefineParsed([]string{key, "]"})
	} else {
		p.Parameters.DefineParsed([]string{key + "]"})
	}

	err := index(p)
	rt.Reach("builtin-returned")
	rt.Assert(!verifC16panicked(err), "the lookup ended in an internal panic (caught by the builtin's recover)")
	if not {
		if err != nil {
			rt.Assert(err.Error() != "", "![k] failed without an error message")
		}
		return
	}
	out, _ := p.Stdout.ReadAll()
	inRange := rt.And(k >= -n, k < n)
	if err == nil {
		rt.Reach("builtin-ok")
		rt.Assert(inRange, "[k] succeeded although k is outside -n <= k < n")
		kk := rt.Concrete(k)
		if kk < 0 {
			kk += n
		}
		if kk >= 0 && kk < n {
			rt.Assert(string(out) == s[kk], "[k] did not return element k")
		}
	} else {
		rt.Reach("builtin-error")
		rt.Assert(rt.Not(inRange), "[k] failed although -n <= k < n")
		rt.Assert(err.Error() != "", "[k] failed without an error message")
	}
}

// verifC16known marks the inputs of the finding C16-index-below-minus-n (`[k]` with k < -n).
func verifC16known(pred bool) { rt.KnownFinding("C16-index-below-minus-n", pred) }
