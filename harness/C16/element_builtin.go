package element

// C16 - the `[[` builtin itself (builtins/core/element.element) including its recover()
// wrapper. The data type "verifc16" is registered through the public
// lang.RegisterUnmarshaller / RegisterMarshaller API; its unmarshaller hands over a symbolic
// array (what the JSON decoder would have produced) so no JSON text is involved.

import (
	"strings"

	"github.com/lmorg/murex/builtins/pipes/streams"
	"github.com/lmorg/murex/config"
	"github.com/lmorg/murex/lang"
	"github.com/lmorg/murex/lang/ref"
	"github.com/lmorg/murex/zzverif/rt"
)

var verifC16object any

func init() {
	lang.RegisterUnmarshaller("verifc16", func(p *lang.Process) (any, error) { return verifC16object, nil })
	lang.RegisterMarshaller("verifc16", func(p *lang.Process, v any) ([]byte, error) { return []byte("<marshalled>"), nil })
}

func verifC16key(tag string, d int) (key string, k int) {
	neg := rt.Choice(tag+"_negative", 2) == 1
	nd := 1 + rt.Choice(tag+"_ndigits", d)
	b := rt.Bytes(tag+"_digits", nd)
	for i := range b {
		rt.Assume(rt.And(b[i] >= '0', b[i] <= '9'))
		k = k*10 + int(b[i]-'0')
	}
	key = string(b)
	if neg {
		key = "-" + key
		k = -k
	}
	return
}

func verifC16panicked(err error) bool {
	if rt.Symbolic() {
		return rt.RecoveredPanics() > 0
	}
	return err != nil && strings.Contains(err.Error(), "panic caught")
}

// VerifC16ElementBuiltin: `<array> -> [[/k]]` through the builtin.
func VerifC16ElementBuiltin() {
	n := rt.Choice("array_len", rt.Param("n")+1)
	v := make([]any, n)
	s := make([]string, n)
	for i := range v {
		s[i] = rt.String("element", 1)
		v[i] = s[i]
	}
	verifC16object = v
	key, k := verifC16key("index", rt.Param("digits"))

	p := new(lang.Process)
	p.Stdin = streams.NewStdin()
	p.Stdin.SetDataType("verifc16")
	p.Stdout = streams.NewStdin()
	p.Stderr = streams.NewStdin()
	p.IsMethod = true
	p.Config = config.InitConf.Copy()
	p.FileRef = &ref.File{Source: &ref.Source{Module: "murex/verif"}}
	p.Name.Set("[[")
	if rt.Choice("bracket_separate", 2) == 1 {
		p.Parameters.DefineParsed([]string{"/" + key, "]]"})
	} else {
		p.Parameters.DefineParsed([]string{"/" + key + "]]"})
	}

	err := element(p)
	rt.Reach("builtin-returned")
	rt.Assert(!verifC16panicked(err), "the lookup ended in an internal panic (caught by the builtin's recover)")
	out, _ := p.Stdout.ReadAll()
	inRange := rt.And(k >= -n, k < n)
	if err == nil {
		rt.Reach("builtin-ok")
		rt.Assert(inRange, "[[/k]] succeeded although k is outside -n <= k < n")
		kk := rt.Concrete(k)
		if kk < 0 {
			kk += n
		}
		if kk >= 0 && kk < n {
			rt.Assert(string(out) == s[kk], "[[/k]] did not return element k")
		}
	} else {
		rt.Reach("builtin-error")
		rt.Assert(rt.Not(inRange), "[[/k]] failed although -n <= k < n")
		rt.Assert(err.Error() != "", "[[/k]] failed without an error message")
	}
}
