package lang

// C16 - Index and element lookups return the element or a clean error.
// Real code executed: IndexTemplateObject, itoIndex, itoIndexArray, itoIndexMap, itoNot,
// itoNotArray, ElementLookup, elementRecursiveLookup, isValidElementIndex, strconv.Atoi,
// streams.Stdin (as the stdout of the lookup).
//
// An uncaught Go panic of the code under test is reported by the engine as a violation
// (kind panic); natively the panic aborts the replay the same way.

import (
	"github.com/lmorg/murex/builtins/pipes/streams"
	"github.com/lmorg/murex/lang/ref"
	"github.com/lmorg/murex/zzverif/rt"
)

// verifC16key draws an index as text: optional '-' and 1..d decimal digits (symbolic), and
// returns the integer the text denotes (computed arithmetically, no forking).
func verifC16key(tag string, d int) (key string, k int) {
	neg := rt.Choice(tag+"_negative", 2) == 1
	nd := 1 + rt.Choice(tag+"_ndigits", d)
	b := rt.Bytes(tag+"_digits", nd)
	for i := range b {
		rt.Assume(rt.And(b[i] >= '0', b[i] <= '9'))
		k = k*10 + int(b[i]-'0')
	}
	key = string(b)
	if neg {
		key = "-" + key
		k = -k
	}
	return
}

// verifC16array draws an array of 0..max elements; every element is a symbolic one-byte string.
func verifC16array(max int) (v []any, s []string) {
	n := rt.Choice("array_len", max+1)
	v = make([]any, n)
	s = make([]string, n)
	for i := range v {
		s[i] = rt.String("element", 1)
		v[i] = s[i]
	}
	return
}

func verifC16proc(not bool) *Process {
	p := new(Process)
	p.Stdout = streams.NewStdin()
	p.Stderr = streams.NewStdin()
	p.IsNot = not
	p.FileRef = &ref.File{Source: &ref.Source{Module: "murex/verif"}}
	return p
}

func verifC16stdout(p *Process) string {
	b, _ := p.Stdout.ReadAll()
	return string(b)
}

// verifC16known: the finding already seen while designing - a negative index below -n.
func verifC16belowMinusN(k, n int) bool { return k < -n }

// VerifC16Index: `[k]` on an array (single index).
func VerifC16Index() {
	v, s := verifC16array(rt.Param("n"))
	n := len(v)
	key, k := verifC16key("index", rt.Param("digits"))
	verifC16known(verifC16belowMinusN(k, n))
	p := verifC16proc(false)
	var marshalled []any
	obj := any(v)
	err := IndexTemplateObject(p, []string{key}, &obj, func(x any) ([]byte, error) {
		marshalled = append(marshalled, x)
		return []byte("<marshalled>"), nil
	})
	rt.Reach("index-returned")
	inRange := rt.And(k >= -n, k < n)
	if err == nil {
		rt.Reach("index-ok")
		rt.Assert(inRange, "[k] succeeded although k is outside -n <= k < n")
		kk := rt.Concrete(k)
		if kk < 0 {
			kk += n
		}
		if kk >= 0 && kk < n {
			rt.Assert(verifC16stdout(p) == s[kk], "[k] did not return element k")
			rt.Assert(len(marshalled) == 0, "[k] of a string element wrote something else than the element")
		}
	} else {
		rt.Reach("index-error")
		rt.Assert(rt.Not(inRange), "[k] failed although -n <= k < n")
		rt.Assert(err.Error() != "", "[k] failed without an error message")
		rt.Assert(verifC16stdout(p) == "", "[k] failed but still wrote an element")
	}
}

// VerifC16Multi: `[k1 k2]` on an array (multi-index lookup): the elements in the order asked for.
func VerifC16Multi() {
	v, s := verifC16array(rt.Param("n"))
	n := len(v)
	key1, k1 := verifC16key("index1", rt.Param("digits"))
	key2, k2 := verifC16key("index2", rt.Param("digits"))
	verifC16known(rt.Or(verifC16belowMinusN(k1, n), verifC16belowMinusN(k2, n)))
	p := verifC16proc(false)
	var marshalled []any
	obj := any(v)
	err := IndexTemplateObject(p, []string{key1, key2}, &obj, func(x any) ([]byte, error) {
		marshalled = append(marshalled, x)
		return []byte("<marshalled>"), nil
	})
	rt.Reach("multi-returned")
	inRange := rt.And(rt.And(k1 >= -n, k1 < n), rt.And(k2 >= -n, k2 < n))
	if err == nil {
		rt.Reach("multi-ok")
		rt.Assert(inRange, "[k1 k2] succeeded although an index is outside -n <= k < n")
		a, b := rt.Concrete(k1), rt.Concrete(k2)
		if a < 0 {
			a += n
		}
		if b < 0 {
			b += n
		}
		if a >= 0 && a < n && b >= 0 && b < n {
			rt.Assert(len(marshalled) == 1, "[k1 k2] did not write exactly one array")
			got, ok := marshalled[0].([]any)
			rt.Assert(ok && len(got) == 2, "[k1 k2] did not return two elements")
			g1, _ := got[0].(string)
			g2, _ := got[1].(string)
			rt.Assert(rt.And(g1 == s[a], g2 == s[b]), "[k1 k2] did not return elements k1 and k2 in that order")
		}
	} else {
		rt.Reach("multi-error")
		rt.Assert(rt.Not(inRange), "[k1 k2] failed although both indexes are in range")
		rt.Assert(err.Error() != "", "[k1 k2] failed without an error message")
	}
}

// VerifC16Element: `[[/k]]` on an array, and `[[/k/j]]` on an array of arrays.
func VerifC16Element() {
	v, s := verifC16array(rt.Param("n"))
	n := len(v)
	key, k := verifC16key("index", rt.Param("digits"))
	sep := "/"
	if rt.Choice("separator", 2) == 1 {
		sep = "."
	}
	nested := rt.Choice("nested", 2) == 1
	var root any = v
	path := sep + key
	if nested {
		// the array sits at position 0 of an outer one-element array: [[/0/k]]
		root = []any{v}
		path = sep + "0" + sep + key
	}
	got, err := ElementLookup(root, path, "json")
	rt.Reach("element-returned")
	inRange := rt.And(k >= -n, k < n)
	if err == nil {
		rt.Reach("element-ok")
		rt.Assert(inRange, "[[/k]] succeeded although k is outside -n <= k < n")
		kk := rt.Concrete(k)
		if kk < 0 {
			kk += n
		}
		if kk >= 0 && kk < n {
			g, ok := got.(string)
			rt.Assert(ok, "[[/k]] did not return the element")
			rt.Assert(g == s[kk], "[[/k]] did not return element k")
		}
	} else {
		rt.Reach("element-error")
		rt.Assert(rt.Not(inRange), "[[/k]] failed although -n <= k < n")
		rt.Assert(err.Error() != "", "[[/k]] failed without an error message")
	}
}

// VerifC16Map: `[key]` and `[[/key]]` on a map return that key's value.
// The statement only speaks about keys that are in the map; for other keys the only demand
// is the absence of a panic.
func VerifC16Map() {
	pool := []string{"a", "A", "ab", "AB", "Ab", "b", "0", "-1"}[:rt.Param("keys")]
	m := map[string]any{}
	vals := map[string]string{}
	for _, k := range pool {
		if rt.Choice("has_"+k, 2) == 1 {
			vals[k] = rt.String("value", 1)
			m[k] = vals[k]
		}
	}
	nk := 1 + rt.Choice("key_len", rt.Param("keylen"))
	key := rt.String("key", nk)
	for i := 0; i < nk; i++ {
		rt.Assume(rt.And(key[i] >= ' ', key[i] <= '~'))
		rt.Assume(rt.And(key[i] != '/', key[i] != '['))
	}
	present := false
	want := ""
	for k, val := range vals {
		if key == k { // forks per live key
			present, want = true, val
		}
	}
	switch rt.Choice("lookup", 2) {
	case 0:
		p := verifC16proc(false)
		obj := any(m)
		err := IndexTemplateObject(p, []string{key}, &obj, func(x any) ([]byte, error) {
			return []byte("<marshalled>"), nil
		})
		rt.Reach("map-index-returned")
		if present {
			rt.Reach("map-index-present")
			rt.Assert(err == nil, "[key] failed for a key that is in the map")
			rt.Assert(verifC16stdout(p) == want, "[key] did not return that key's value")
		}
	case 1:
		got, err := ElementLookup(m, "/"+key, "json")
		rt.Reach("map-element-returned")
		if present {
			rt.Reach("map-element-present")
			rt.Assert(err == nil, "[[/key]] failed for a key that is in the map")
			g, ok := got.(string)
			rt.Assert(ok, "[[/key]] did not return a value")
			rt.Assert(g == want, "[[/key]] did not return that key's value")
		}
	}
}

// VerifC16Not: `![k]` on an array. The statement names `![` only in its scope, so the only
// demand applied here is its last sentence: no internal panic (an uncaught panic is reported by
// the engine), and a failure carries an error message.
func VerifC16Not() {
	v, _ := verifC16array(rt.Param("n"))
	key, _ := verifC16key("index", rt.Param("digits"))
	p := verifC16proc(true)
	obj := any(v)
	err := IndexTemplateObject(p, []string{key}, &obj, func(x any) ([]byte, error) {
		return []byte("<marshalled>"), nil
	})
	rt.Reach("not-returned")
	if err == nil {
		rt.Reach("not-ok")
	} else {
		rt.Reach("not-error")
		rt.Assert(err.Error() != "", "![k] failed without an error message")
	}
}

// verifC16known marks the inputs of the finding C16-index-below-minus-n (`[k]` with k < -n).
func verifC16known(pred bool) { rt.KnownFinding("C16-index-below-minus-n", pred) }

// VerifC16MapMulti: `[k1 k2]` on a map: every key that is in the map as written comes back with
// exactly its value (as a list in order, or as an object under the two keys,
// depending on the module's language version).
func VerifC16MapMulti() {
	pool := []string{"a", "A", "ab", "AB", "Ab", "b", "B"}[:rt.Param("keys")]
	m := map[string]any{}
	vals := map[string]string{}
	for _, k := range pool {
		if rt.Choice("has_"+k, 2) == 1 {
			vals[k] = rt.String("value", 1)
			m[k] = vals[k]
		}
	}
	keys := make([]string, 2)
	found := make([]bool, 2)
	want := make([]string, 2)
	for j := range keys {
		nk := 1 + rt.Choice("key_len", rt.Param("keylen"))
		key := rt.String("key", nk)
		for i := 0; i < nk; i++ {
			rt.Assume(rt.And(key[i] >= ' ', key[i] <= '~'))
			rt.Assume(rt.And(key[i] != '/', key[i] != '['))
		}
		keys[j] = key
		for k, val := range vals {
			if key == k {
				found[j], want[j] = true, val
			}
		}
	}
	p := verifC16proc(false)
	obj := any(m)
	var got any
	err := IndexTemplateObject(p, []string{keys[0], keys[1]}, &obj, func(x any) ([]byte, error) {
		got = x
		return []byte("<marshalled>"), nil
	})
	rt.Reach("map-multi-returned")
	if found[0] && found[1] {
		rt.Reach("map-multi-present")
		rt.Assert(err == nil, "[k1 k2] failed although both keys are in the map")
	}
	if err != nil {
		return
	}
	// whatever murex does for a key that is not in the map as written (it tries other
	// spellings), a key that IS in the map must come back with that key's value
	switch x := got.(type) {
	case []any:
		rt.Assert(len(x) == 2, "[k1 k2] did not return two values")
		for j := range keys {
			if found[j] && len(x) == 2 {
				v, ok := x[j].(string)
				rt.Assert(ok && v == want[j], "[k1 k2] did not return the value of a key that is in the map")
			}
		}
	case map[string]any:
		for j := range keys {
			if found[j] && (keys[0] != keys[1] || j == 1) {
				v, ok := x[keys[j]].(string)
				rt.Assert(ok && v == want[j], "[k1 k2] did not return the value of a key that is in the map under that key")
			}
		}
	default:
		rt.Fail("[k1 k2] on a map handed neither a list nor an object to the marshaller")
	}
}
