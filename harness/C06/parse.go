package c06

// C06 - parser + evaluator, through the public API: expressions.ExecuteExpr(p, text) on the text of
// an expression built from templates (nesting of parentheses), operator tokens and numeric literal
// spellings chosen by the solver. The reference value is computed by a small evaluator written from
// the property statement (C precedence, left association, IEEE-754 doubles).

import (
	"math"
	"strings"

	"github.com/lmorg/murex/lang"
	"github.com/lmorg/murex/lang/expressions"
	"github.com/lmorg/murex/lang/expressions/primitives"
	"github.com/lmorg/murex/zzverif/mx"
	"github.com/lmorg/murex/zzverif/rt"
)

// A B C D: literal slots, x y z: operator slots.
var templates = []string{
	"AxByCzD",
	"(AxB)yCzD",
	"Ax(ByC)zD",
	"AxBy(CzD)",
	"(AxB)y(CzD)",
	"(AxByC)zD",
	"Ax(ByCzD)",
	"((AxB)yC)zD",
	"Ax(By(CzD))",
	"(Ax(ByC))zD",
	"AxB",
	"AxByC",
	"(A)x((B))",
}

var opTokens = []string{"+", "-", "*", "/", "<", "<=", ">", ">=", "==", "!="}

type lit struct {
	text string
	val  float64
}

// literal sets: values chosen so that different groupings give different results; zeros for
// division by zero (Inf, NaN); negatives, decimals, leading zeros.
var litSets = [][4]lit{
	{{"7", 7}, {"-2", -2}, {"3", 3}, {"0.5", 0.5}},
	{{"7", 7}, {"2", 2}, {"3", 3}, {"5", 5}},
	{{"-7", -7}, {"2.5", 2.5}, {"-3", -3}, {"0.5", 0.5}},
	{{"1", 1}, {"0", 0}, {"0", 0}, {"2", 2}},
	{{"0", 0}, {"0.0", 0}, {"-1", -1}, {"0", 0}},
	{{"0.1", 0.1}, {"0.2", 0.2}, {"0.3", 0.3}, {"10", 10}},
	{{"9007199254740993", 9007199254740993}, {"3", 3}, {"1", 1}, {"007", 7}},
	{{"123456789.125", 123456789.125}, {"-0", math.Copysign(0, -1)}, {"1.50", 1.5}, {"100", 100}},
}

type refParser struct {
	s    string
	pos  int
	lits [4]lit
	ops  [3]int
}

// chain := item (op item)*   item := literal | '(' chain ')'
// value: `*` `/` first left to right, then `+` `-` left to right, then the (single) comparison.
func (r *refParser) chain() (num float64, b bool, isBool bool) {
	var vals []float64
	var ops []int
	for {
		c := r.s[r.pos]
		if c == '(' {
			r.pos++
			v, _, ib := r.chain()
			if ib {
				panic("harness: boolean used as operand")
			}
			r.pos++ // ')'
			vals = append(vals, v)
		} else {
			vals = append(vals, r.lits[c-'A'].val)
			r.pos++
		}
		if r.pos >= len(r.s) || r.s[r.pos] == ')' {
			break
		}
		ops = append(ops, r.ops[r.s[r.pos]-'x'])
		r.pos++
	}
	cmpAt := -1
	for i, o := range ops {
		if o >= 4 {
			if cmpAt >= 0 {
				panic("harness: two comparisons in a chain")
			}
			cmpAt = i
		}
	}
	if cmpAt < 0 {
		return arith(vals, ops), false, false
	}
	l, rr := arith(vals[:cmpAt+1], ops[:cmpAt]), arith(vals[cmpAt+1:], ops[cmpAt+1:])
	switch ops[cmpAt] {
	case 4:
		b = l < rr
	case 5:
		b = l <= rr
	case 6:
		b = l > rr
	case 7:
		b = l >= rr
	case 8:
		b = l == rr
	default:
		b = l != rr
	}
	return 0, b, true
}

func arith(vals []float64, ops []int) float64 {
	terms := []float64{vals[0]}
	var addOps []int
	for i, op := range ops {
		switch op {
		case 2:
			terms[len(terms)-1] *= vals[i+1]
		case 3:
			terms[len(terms)-1] /= vals[i+1]
		default:
			addOps = append(addOps, op)
			terms = append(terms, vals[i+1])
		}
	}
	acc := terms[0]
	for i, op := range addOps {
		if op == 0 {
			acc += terms[i+1]
		} else {
			acc -= terms[i+1]
		}
	}
	return acc
}

func sameFloat(a, b float64) bool { return a == b || (a != a && b != b) }

// VerifC06Parse: every template x every operator assignment with at most one comparison, which is
// outside all parentheses x literal set x spacing x strict-types.
func VerifC06Parse() {
	mx.Init()
	nT := rt.Param("templates")
	if nT > len(templates) {
		nT = len(templates)
	}
	nL := rt.Param("litsets")
	if nL > len(litSets) {
		nL = len(litSets)
	}
	tpl := templates[rt.Choice("template", nT)]
	lits := litSets[rt.Choice("literals", nL)]
	// variant: 0 tight + loose types, 1 spaced + strict types, 2 spaced + loose, 3 tight + strict
	nV := rt.Param("variants")
	if nV > 4 || nV < 1 {
		nV = 4
	}
	variant := rt.Choice("variant", nV)
	spaced := variant == 1 || variant == 2
	strict := variant == 1 || variant == 3

	// operator slots present in the template and their nesting depth
	var ops [3]int
	depth, nCmp := 0, 0
	for i := 0; i < len(tpl); i++ {
		switch c := tpl[i]; {
		case c == '(':
			depth++
		case c == ')':
			depth--
		case c >= 'x' && c <= 'z':
			k := len(opTokens)
			if depth > 0 || nCmp > 0 {
				k = 4 // arithmetic only inside parentheses / after the one comparison
			}
			o := rt.Choice("op", k)
			if o >= 4 {
				nCmp++
			}
			ops[c-'x'] = o
		}
	}

	var sb strings.Builder
	for i := 0; i < len(tpl); i++ {
		switch c := tpl[i]; {
		case c >= 'A' && c <= 'D':
			sb.WriteString(lits[c-'A'].text)
		case c >= 'x' && c <= 'z':
			if spaced {
				sb.WriteString(" " + opTokens[ops[c-'x']] + " ")
			} else {
				sb.WriteString(opTokens[ops[c-'x']])
			}
		default:
			sb.WriteByte(c)
		}
	}
	text := sb.String()
	rt.Note("expression: " + text)

	p := lang.NewTestProcess()
	if err := p.Config.Set("proc", "strict-types", strict, nil); err != nil {
		rt.Fail("cannot set strict-types: " + err.Error())
	}
	dt, err := expressions.ExecuteExpr(p, []rune(text))
	rt.Assert(err == nil, "well-formed expression rejected: "+text)
	val, err := dt.GetValue()
	rt.Assert(err == nil, "no value: "+text)
	rt.Reach("evaluated")

	r := &refParser{s: tpl, lits: lits, ops: ops}
	num, b, isBool := r.chain()
	if isBool {
		got, ok := val.Value.(bool)
		rt.Assert(ok && val.Primitive == primitives.Boolean, "comparison does not yield a boolean: "+text)
		rt.Assert(got == b, "wrong comparison result: "+text)
		rt.Reach("compare")
		return
	}
	got, ok := val.Value.(float64)
	rt.Assert(ok && val.Primitive == primitives.Number, "arithmetic does not yield a number: "+text)
	rt.Assert(sameFloat(got, num), "wrong arithmetic result: "+text)
	rt.Reach("arith")
}

// groups of spellings of the same number
var spellings = [][]string{
	{"1", "1.0", "01", "1.00", "001.000"},
	{"0", "0.0", "-0", "00", "-0.00"},
	{"0.5", "0.50", "00.5"},
	{"-2.5", "-2.50", "-02.5"},
	{"10", "10.0", "010"},
	{"9007199254740992", "9007199254740993", "9007199254740992.0"}, // same double
}

// VerifC06Spellings: equal numbers compare equal however they are written (and different numbers
// do not), for the spellings above, on both sides of every comparison operator.
func VerifC06Spellings() {
	mx.Init()
	ga, gb := rt.Choice("group-a", len(spellings)), rt.Choice("group-b", len(spellings))
	rt.Assume(ga <= gb)
	a := spellings[ga][rt.Choice("spelling-a", len(spellings[ga]))]
	b := spellings[gb][rt.Choice("spelling-b", len(spellings[gb]))]
	op := 4 + rt.Choice("cmp", 6)
	strict := rt.Choice("strict-types", 2) == 1
	text := a + " " + opTokens[op] + " " + b
	rt.Note("expression: " + text)

	p := lang.NewTestProcess()
	if err := p.Config.Set("proc", "strict-types", strict, nil); err != nil {
		rt.Fail("cannot set strict-types: " + err.Error())
	}
	dt, err := expressions.ExecuteExpr(p, []rune(text))
	rt.Assert(err == nil, "well-formed comparison rejected: "+text)
	val, err := dt.GetValue()
	rt.Assert(err == nil, "no value: "+text)
	got, ok := val.Value.(bool)
	rt.Assert(ok, "comparison does not yield a boolean: "+text)
	rt.Reach("compared")

	// the groups are listed in no particular order; their numeric values:
	values := []float64{1, 0, 0.5, -2.5, 10, 9007199254740992}
	l, r := values[ga], values[gb]
	var want bool
	switch op {
	case 4:
		want = l < r
	case 5:
		want = l <= r
	case 6:
		want = l > r
	case 7:
		want = l >= r
	case 8:
		want = l == r
	default:
		want = l != r
	}
	rt.Assert(got == want, "numbers written differently compare wrongly: "+text)
}
