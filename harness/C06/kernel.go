package expressions

// C06 - Arithmetic and comparison expressions follow C precedence.
//
// Real code executed: (*ParserT).executeExpr -> validateExpression, executeExpression for every
// entry of orderOfOperations, expMultiply/expDivide/expAdd/expSubtract/expGtLt/expEqualTo/
// expNotEqualTo, validateNumericalDataTypes, compareTypes, foldAst, types.ConvertGoType.
//
// The reference evaluator below is written from the property statement only: `*` `/` first
// (left to right), then `+` `-` (left to right), then the comparison, which yields a boolean.

import (
	"github.com/lmorg/murex/lang/expressions/primitives"
	"github.com/lmorg/murex/lang/expressions/symbols"
	"github.com/lmorg/murex/zzverif/rt"
)

var verifC06arithOps = []symbols.Exp{symbols.Add, symbols.Subtract, symbols.Multiply, symbols.Divide}
var verifC06cmpOps = []symbols.Exp{
	symbols.LessThan, symbols.LessThanOrEqual, symbols.GreaterThan,
	symbols.GreaterThanOrEqual, symbols.EqualTo, symbols.NotEqualTo,
}

func verifC06isCmp(op symbols.Exp) bool {
	for _, c := range verifC06cmpOps {
		if c == op {
			return true
		}
	}
	return false
}

// verifC06refArith: value of v0 o1 v1 ... ok vk where every o is one of + - * / (ops are concrete,
// values symbolic): product terms first, left to right; then the sum, left to right.
func verifC06refArith(vals []float64, ops []symbols.Exp) float64 {
	terms := []float64{vals[0]}
	var addOps []symbols.Exp
	for i, op := range ops {
		switch op {
		case symbols.Multiply:
			terms[len(terms)-1] = terms[len(terms)-1] * vals[i+1]
		case symbols.Divide:
			terms[len(terms)-1] = terms[len(terms)-1] / vals[i+1]
		default:
			addOps = append(addOps, op)
			terms = append(terms, vals[i+1])
		}
	}
	acc := terms[0]
	for i, op := range addOps {
		if op == symbols.Add {
			acc = acc + terms[i+1]
		} else {
			acc = acc - terms[i+1]
		}
	}
	return acc
}

func verifC06refCmp(op symbols.Exp, a, b float64) bool {
	switch op {
	case symbols.LessThan:
		return a < b
	case symbols.LessThanOrEqual:
		return a <= b
	case symbols.GreaterThan:
		return a > b
	case symbols.GreaterThanOrEqual:
		return a >= b
	case symbols.EqualTo:
		return a == b
	default:
		return a != b
	}
}

// VerifC06Eval: v0 o1 v1 ... ok vk, k = param "k", every v any float64 (NaN, infinities, signed
// zeros, subnormals included), operators + - * / with at most one comparison anywhere in the chain.
func VerifC06Eval() {
	k := rt.Param("k")
	strict := rt.Choice("strict-types", 2) == 1
	cmpAt := rt.Choice("comparison-at", k+1) - 1 // -1: none
	ops := make([]symbols.Exp, k)
	for i := range ops {
		if i == cmpAt {
			ops[i] = verifC06cmpOps[rt.Choice("cmp", len(verifC06cmpOps))]
		} else {
			ops[i] = verifC06arithOps[rt.Choice("op", len(verifC06arithOps))]
		}
	}
	vals := make([]float64, k+1)
	for i := range vals {
		vals[i] = rt.Float64("v")
	}

	tree := new(ParserT)
	tree._strictTypes = strict
	for i := 0; i <= k; i++ {
		if i > 0 {
			tree.ast = append(tree.ast, &astNodeT{key: ops[i-1], pos: 2*i - 1})
		}
		tree.ast = append(tree.ast, &astNodeT{
			key: symbols.Number, pos: 2 * i,
			dt: primitives.NewPrimitive(primitives.Number, vals[i]),
		})
	}

	dt, err := tree.executeExpr()
	rt.Assert(err == nil, "a well-formed numeric expression was rejected")
	val, err := dt.GetValue()
	rt.Assert(err == nil, "result has no value")
	rt.Reach("evaluated")

	if cmpAt < 0 {
		want := verifC06refArith(vals, ops)
		f, ok := val.Value.(float64)
		rt.Assert(ok, "arithmetic result is not a number")
		rt.Assert(val.Primitive == primitives.Number, "arithmetic result is not typed as a number")
		rt.Assert(rt.SameFloat(f, want), "arithmetic result differs from the IEEE-754 result with C precedence")
		rt.Reach("arith")
		return
	}
	l := verifC06refArith(vals[:cmpAt+1], ops[:cmpAt])
	r := verifC06refArith(vals[cmpAt+1:], ops[cmpAt+1:])
	want := verifC06refCmp(ops[cmpAt], l, r)
	b, ok := val.Value.(bool)
	rt.Assert(ok, "comparison result is not a boolean")
	rt.Assert(val.Primitive == primitives.Boolean, "comparison result is not typed as a boolean")
	rt.Assert(b == want, "comparison result differs: + - * / must bind tighter than the comparison")
	rt.Reach("compare")
}

// verifC06less: a < b in byte order, as one term (no forking).
func verifC06less(a, b []rune) bool {
	n := len(a)
	if len(b) < n {
		n = len(b)
	}
	eq := true // common prefix a[:i] == b[:i]
	less := false
	for i := 0; i < n; i++ {
		less = rt.Or(less, rt.And(eq, a[i] < b[i]))
		eq = rt.And(eq, a[i] == b[i])
	}
	if len(a) < len(b) {
		less = rt.Or(less, eq)
	}
	return less
}

func verifC06equal(a, b []rune) bool {
	if len(a) != len(b) {
		return false
	}
	eq := true
	for i := range a {
		eq = rt.And(eq, a[i] == b[i])
	}
	return eq
}

// VerifC06Strings: 'a' op 'b' for all ASCII strings a, b of up to n bytes, op one of the six
// comparisons; single- and double-quoted literal nodes.
func VerifC06Strings() {
	n := rt.Param("n")
	strict := rt.Choice("strict-types", 2) == 1
	la, lb := rt.Choice("len-a", n+1), rt.Choice("len-b", n+1)
	a, b := rt.Runes("a", la), rt.Runes("b", lb)
	for _, c := range a {
		rt.Assume(rt.And(c >= 0, c < 0x80))
	}
	for _, c := range b {
		rt.Assume(rt.And(c >= 0, c < 0x80))
	}
	op := verifC06cmpOps[rt.Choice("cmp", len(verifC06cmpOps))]
	quotes := []symbols.Exp{symbols.QuoteSingle, symbols.QuoteDouble}
	qa, qb := quotes[rt.Choice("quote-a", 2)], quotes[rt.Choice("quote-b", 2)]

	tree := new(ParserT)
	tree._strictTypes = strict
	tree.ast = []*astNodeT{
		{key: qa, value: a, pos: 0},
		{key: op, pos: 1},
		{key: qb, value: b, pos: 2},
	}
	dt, err := tree.executeExpr()
	rt.Assert(err == nil, "comparison of two quoted strings was rejected")
	val, err := dt.GetValue()
	rt.Assert(err == nil, "result has no value")
	got, ok := val.Value.(bool)
	rt.Assert(ok, "string comparison result is not a boolean")
	rt.Reach("compared")

	lt, eq := verifC06less(a, b), verifC06equal(a, b)
	var want bool
	switch op {
	case symbols.LessThan:
		want = lt
	case symbols.LessThanOrEqual:
		want = rt.Or(lt, eq)
	case symbols.GreaterThan:
		want = rt.Not(rt.Or(lt, eq))
	case symbols.GreaterThanOrEqual:
		want = rt.Not(lt)
	case symbols.EqualTo:
		want = eq
	default:
		want = rt.Not(eq)
	}
	rt.Assert(got == want, "strings do not compare in byte order")
}

var (
	verifC06relOps = []symbols.Exp{symbols.LessThan, symbols.LessThanOrEqual, symbols.GreaterThan, symbols.GreaterThanOrEqual}
	verifC06eqOps  = []symbols.Exp{symbols.EqualTo, symbols.NotEqualTo}
)

// VerifC06CmpChain: `A r1 B e C r2 D` with r1, r2 relational (< <= > >=), e an equality operator
// (== !=) and A..D sums/products of 1..2 arbitrary float64: with C precedence the relational
// operators bind tighter than the equality operator, so the result is (A r1 B) e (C r2 D).
func VerifC06CmpChain() {
	strict := rt.Choice("strict-types", 2) == 1
	r1 := verifC06relOps[rt.Choice("rel", 4)]
	e := verifC06eqOps[rt.Choice("eq", 2)]
	r2 := verifC06relOps[rt.Choice("rel", 4)]
	// each operand: one value, or two joined by an arithmetic operator (when `arith` = 1)
	var ops []symbols.Exp
	var vals []float64
	var operand [4]float64
	for j := 0; j < 4; j++ {
		a := rt.Float64("v")
		vals = append(vals, a)
		operand[j] = a
		if rt.Param("arith") == 1 && rt.Choice("wide", 2) == 1 {
			op := verifC06arithOps[rt.Choice("op", len(verifC06arithOps))]
			b := rt.Float64("v")
			ops = append(ops, op)
			vals = append(vals, b)
			operand[j] = verifC06refArith([]float64{a, b}, []symbols.Exp{op})
		}
		if j < 3 {
			ops = append(ops, []symbols.Exp{r1, e, r2}[j])
		}
	}
	tree := new(ParserT)
	tree._strictTypes = strict
	for i := range vals {
		if i > 0 {
			tree.ast = append(tree.ast, &astNodeT{key: ops[i-1], pos: 2*i - 1})
		}
		tree.ast = append(tree.ast, &astNodeT{key: symbols.Number, pos: 2 * i, dt: primitives.NewPrimitive(primitives.Number, vals[i])})
	}
	dt, err := tree.executeExpr()
	rt.Assert(err == nil, "a well-formed comparison chain was rejected")
	val, err := dt.GetValue()
	rt.Assert(err == nil, "result has no value")
	rt.Reach("chain-evaluated")
	left := verifC06refCmp(r1, operand[0], operand[1])
	right := verifC06refCmp(r2, operand[2], operand[3])
	want := left == right
	if e == symbols.NotEqualTo {
		want = left != right
	}
	b, ok := val.Value.(bool)
	rt.Assert(ok, "comparison chain result is not a boolean")
	rt.Assert(b == want, "relational operators must bind tighter than == and != (C precedence)")
}
