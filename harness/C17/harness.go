package ranges

// C17 - Range filters select the documented slice.
// Real code executed: CmdRange (incl. RxSplitRange on the symbolic parameter text), newIndex,
// createRfIndex, rfIndex.Start/End/SetLength, readArray, buffer, streams.Stdin,
// lang.ArrayDataTemplate/readArrayBySliceString (the context-aware item reader every list type uses),
// strconv.Atoi.
//
// The list travels in a data type "verifc17" registered through the public
// stdio.RegisterReadArray / RegisterWriteArray API: its reader is murex's own
// lang.ArrayDataTemplate over a []string (stops when the context is cancelled, like the str,
// generic and json readers), its writer records the items. No text encoding is involved, so the
// items stay symbolic.

import (
	"context"

	"github.com/lmorg/murex/builtins/pipes/streams"
	_ "github.com/lmorg/murex/builtins/types/generic"
	_ "github.com/lmorg/murex/builtins/types/string"
	"github.com/lmorg/murex/lang"
	"github.com/lmorg/murex/lang/ref"
	"github.com/lmorg/murex/lang/stdio"
	"github.com/lmorg/murex/zzverif/rt"
)

var verifC17store = map[stdio.Io][]string{}

type verifC17writer struct{ w stdio.Io }

func (a *verifC17writer) Write(b []byte) error {
	verifC17store[a.w] = append(verifC17store[a.w], string(b))
	return nil
}
func (a *verifC17writer) WriteString(s string) error {
	verifC17store[a.w] = append(verifC17store[a.w], s)
	return nil
}
func (a *verifC17writer) Close() error { return nil }

func init() {
	stdio.RegisterReadArray("verifc17", func(ctx context.Context, read stdio.Io, callback func([]byte)) error {
		return lang.ArrayDataTemplate(ctx, nil, nil, verifC17store[read], callback)
	})
	stdio.RegisterWriteArray("verifc17", func(w stdio.Io) (stdio.ArrayWriter, error) {
		return &verifC17writer{w: w}, nil
	})
}

// verifC17num draws a number as text of 1..d symbolic decimal digits and returns its value.
func verifC17num(tag string, d int) (text string, val int) {
	nd := 1 + rt.Choice(tag+"_ndigits", d)
	b := rt.Bytes(tag+"_digits", nd)
	for i := range b {
		rt.Assume(rt.And(b[i] >= '0', b[i] <= '9'))
		val = val*10 + int(b[i]-'0')
	}
	return string(b), val
}

func verifC17min(a, b int) int { return rt.IteInt(a < b, a, b) }

// verifC17case draws one range expression of the statement and returns its texts and the slice
// model: items lo..hi (1-based, inclusive; empty when lo > hi) of a list of n items.
// inScope is false where the statement says nothing (then only crashes/hangs are looked for).
func verifC17case(n int) (start, end string, exclude bool, lo, hi int, inScope bool) {
	d := rt.Param("digits")
	exclude = rt.Choice("e_flag", 2) == 1
	inScope = true
	switch rt.Choice("form", 4) {
	case 0: // [s..e]
		var s, e int
		start, s = verifC17num("s", d)
		end, e = verifC17num("e", d)
		rt.Assume(rt.And(s >= 1, s <= e))
		lo, hi = s, verifC17min(e, n)
		if exclude {
			lo, hi = s+1, verifC17min(e-1, n)
		}
	case 1: // [s..]
		var s int
		start, s = verifC17num("s", d)
		rt.Assume(s >= 1)
		lo, hi = s, n
		if exclude {
			lo = s + 1
		}
	case 2: // [..e]
		var e int
		end, e = verifC17num("e", d)
		rt.Assume(e >= 1)
		lo, hi = 1, verifC17min(e, n)
		if exclude {
			hi = verifC17min(e-1, n)
		}
	case 3: // [-k..]
		var k int
		start, k = verifC17num("k", d)
		start = "-" + start
		rt.Assume(k >= 1)
		// "the last k items": stated for lists that have k items; which end-point the e flag
		// removes from an open range counted from the end is not stated.
		inScope = rt.And(k <= n, !exclude)
		lo, hi = n-k+1, n
	}
	return
}

func verifC17proc(items []string) *lang.Process {
	p := new(lang.Process)
	in := streams.NewStdin()
	in.SetDataType("verifc17")
	verifC17store[in] = items
	p.Stdin = in
	p.Stdout = streams.NewStdin()
	p.Stderr = streams.NewStdin()
	p.IsMethod = true
	p.Context, p.Done = context.WithCancel(context.Background())
	p.FileRef = &ref.File{Source: &ref.Source{Module: "murex/verif"}}
	p.Name.Set("[")
	return p
}

func verifC17items() []string {
	n := rt.Choice("items", rt.Param("n")+1)
	items := make([]string, n)
	for i := range items {
		// an item is one symbolic byte or the empty string (a blank line of a `str` list, "" in json):
		// an empty item is an item like any other and is counted
		items[i] = rt.String("item", rt.Choice("item_len", 2))
	}
	return items
}

// verifC17compare: the output is exactly items lo..hi in input order.
func verifC17compare(items, out []string, lo, hi int, inScope bool) {
	if !inScope { // forks only for form 3
		rt.Reach("outside-statement")
		return
	}
	rt.Reach("compared")
	cnt := rt.IteInt(hi >= lo, hi-lo+1, 0)
	rt.Assert(len(out) == cnt, "the range filter output the wrong number of items")
	if len(out) == 0 {
		return
	}
	l := rt.Concrete(lo)
	for j := range out {
		if l-1+j < 0 || l-1+j >= len(items) {
			break // count assertion above has failed already
		}
		rt.Assert(out[j] == items[l-1+j], "the range filter output the wrong items or changed their order")
	}
	rt.Reach("non-empty-output")
}

// VerifC17Kernel: newIndex + readArray on the parsed range (Start/End/Exclude given directly).
func VerifC17Kernel() {
	items := verifC17items()
	start, end, exclude, lo, hi, inScope := verifC17case(len(items))
	p := verifC17proc(items)
	r := &rangeParameters{Start: start, End: end, Exclude: exclude}
	err := newIndex(r)
	rt.Assert(err == nil, "a well-formed index range was rejected")
	err = readArray(p, r, "verifc17")
	rt.Reach("filter-returned")
	rt.Assert(err == nil, "the range filter failed on a well-formed range")
	verifC17compare(items, verifC17store[p.Stdout], lo, hi, inScope)
}

// VerifC17Cmd: the builtin entry CmdRange on the parameter text `s..e]` / `s..e]e` (what `[s..e]e`
// becomes after the parser took the command name `[`).
func VerifC17Cmd() {
	items := verifC17items()
	start, end, exclude, lo, hi, inScope := verifC17case(len(items))
	p := verifC17proc(items)
	text := start + ".." + end + "]"
	if exclude {
		text += "e"
	}
	p.Parameters.DefineParsed([]string{text})
	err := CmdRange(p)
	rt.Reach("filter-returned")
	rt.Assert(err == nil, "the range filter failed on a well-formed range")
	verifC17compare(items, verifC17store[p.Stdout], lo, hi, inScope)
}

// ---- long items through the real line readers ----

// VerifC17Long: a `str` / generic list of `items` lines of `width` bytes each (more than the 4 KiB
// start buffer of the line scanner in total; filler bytes with a symbolic first byte per line)
// through CmdRange with ranges counted from the start and from the end. The output must be
// exactly the selected lines: readers hand out slices of their scan buffer, so an implementation
// that keeps items must copy them.
func VerifC17Long() {
	n, w := rt.Param("items"), rt.Param("width")
	dt := []string{"str", "generic"}[rt.Choice("type", 2)]
	lines := make([]string, n)
	text := ""
	for i := range lines {
		b := make([]byte, w)
		for j := range b {
			b[j] = byte('a' + (i+j)%26)
		}
		c := rt.Byte("first")
		rt.Assume(rt.And(c >= 'A', c <= 'Z'))
		b[0] = c
		lines[i] = string(b)
	}
	// optionally one blank line, near the start or near the end of the list: it is an item
	switch rt.Choice("blank_line", 3) {
	case 1:
		lines[2] = ""
	case 2:
		lines[n-3] = ""
	}
	for i := range lines {
		text += lines[i] + "\n"
	}
	type rng struct {
		text   string
		lo, hi int // 1-based inclusive
	}
	cases := []rng{
		{"-1..]", n, n}, {"-5..]", n - 4, n}, {"-14..]", n - 13, n}, {"-20..]", n - 19, n}, {"-" + verifC17itoa(n) + "..]", 1, n},
		{"1..3]", 1, 3}, {"10..20]", 10, 20}, {verifC17itoa(n-1) + ".." + verifC17itoa(n) + "]", n - 1, n}, {"..16]", 1, 16}, {"15..]", 15, n},
		{"2..19]e", 3, 18},
	}
	c := cases[rt.Choice("range", len(cases))]
	rt.Assume(c.lo >= 1 && c.hi <= n)

	p := new(lang.Process)
	in := streams.NewStdin()
	in.SetDataType(dt)
	_, err := in.Write([]byte(text))
	rt.Assert(err == nil, "cannot fill stdin")
	p.Stdin = in
	p.Stdout = streams.NewStdin()
	p.Stderr = streams.NewStdin()
	p.IsMethod = true
	p.Context, p.Done = context.WithCancel(context.Background())
	p.FileRef = &ref.File{Source: &ref.Source{Module: "murex/verif"}}
	p.Name.Set("[")
	p.Parameters.DefineParsed([]string{c.text})
	err = CmdRange(p)
	rt.Reach("long-returned")
	rt.Assert(err == nil, "the range filter failed on a well-formed range")
	out, err := p.Stdout.ReadAll()
	rt.Assert(err == nil, "cannot read the filter's output")
	want := ""
	for i := c.lo; i <= c.hi; i++ {
		want += lines[i-1] + "\n"
	}
	rt.Assert(len(out) == len(want), "the range filter output the wrong number of bytes for a list of long items")
	if len(out) == len(want) {
		rt.Assert(string(out) == want, "the range filter output the wrong items (long items)")
	}
}

func verifC17itoa(n int) string {
	if n == 0 {
		return "0"
	}
	s := ""
	for n > 0 {
		s = string(rune('0'+n%10)) + s
		n /= 10
	}
	return s
}
