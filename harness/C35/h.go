// Package c35: C35 - escape, eschtml and escurl are undone by their ! forms.
//
// Real code executed: the builtins escape / !escape (cmdEscape: strconv.Quote, strconv.Unquote),
// eschtml / !eschtml (cmdHtml: html.EscapeString, html.UnescapeString), escurl / !escurl (cmdUrl:
// url.PathEscape, url.PathUnescape), each run as a *method* (text on stdin) through
// lang.GoFunctions on a forked process with recording streams; the stdlib functions are interpreted
// from source.
package c35

import (
	"github.com/lmorg/murex/builtins/pipes/streams"
	"github.com/lmorg/murex/lang"
	"github.com/lmorg/murex/lang/ref"
	"github.com/lmorg/murex/zzverif/mx"
	"github.com/lmorg/murex/zzverif/rt"
)

// method runs builtin `name` as a method with `in` on its stdin and returns its stdout.
func method(name string, in []byte) ([]byte, error) {
	mx.Init()
	fork := lang.ShellProcess.Fork(lang.F_FUNCTION | lang.F_NEW_MODULE | lang.F_NO_STDIN | lang.F_CREATE_STDOUT | lang.F_CREATE_STDERR)
	fork.FileRef = &ref.File{Source: &ref.Source{Module: "murex/verif-c35"}}
	p := fork.Process
	p.Name.Set(name)
	p.IsMethod = true
	p.IsNot = name[0] == '!' // what lang.createProcess does for a command name starting with !
	stdin := streams.NewStdin()
	_, err := stdin.Write(in)
	if err != nil {
		return nil, err
	}
	out := streams.NewStdin()
	p.Stdin = stdin
	p.Stdout = out
	if err = lang.GoFunctions[name](p); err != nil {
		return nil, err
	}
	return out.ReadAll()
}

var pairs = []string{"escape", "escurl", "eschtml"}

func roundTrip(pair string) {
	n := rt.Param("n")
	l := rt.Choice("len", n+1)
	x := rt.Bytes("x", l) // every byte value 0..255: valid and invalid UTF-8

	enc, err := method(pair, x)
	rt.Assert(err == nil, "the encoder failed")
	if err != nil {
		return
	}
	rt.Reach("encoded")
	dec, err := method("!"+pair, enc)
	rt.Assert(err == nil, "the decoder rejected the encoder's output")
	if err != nil {
		return
	}
	rt.Reach("decoded")
	rt.Assert(len(dec) == len(x), "decoded text has a different length")
	if len(dec) != len(x) {
		return
	}
	rt.Assert(string(dec) == string(x), "decoded text differs from the original")
}

func VerifC35Escape()  { roundTrip("escape") }
func VerifC35Escurl()  { roundTrip("escurl") }
func VerifC35Eschtml() { roundTrip("eschtml") }
