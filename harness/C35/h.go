// Package c35: C35 - escape, eschtml and escurl are undone by their ! forms.
//
// Real code executed: the builtins escape / !escape (cmdEscape: strconv.Quote, strconv.Unquote),
// eschtml / !eschtml (cmdHtml: html.EscapeString, html.UnescapeString), escurl / !escurl (cmdUrl:
// url.PathEscape, url.PathUnescape), each run as a *method* (text on stdin) through
// lang.GoFunctions on a forked process with recording streams; the stdlib functions are interpreted
// from source.
package c35

import (
	"github.com/lmorg/murex/builtins/pipes/streams"
	"github.com/lmorg/murex/lang"
	"github.com/lmorg/murex/lang/ref"
	"github.com/lmorg/murex/zzverif/mx"
	"github.com/lmorg/murex/zzverif/rt"
)

// method runs builtin `name` as a method with `in` on its stdin and returns its stdout.
func method(name string, in []byte) ([]byte, error) {
	mx.Init()
	fork := lang.ShellProcess.Fork(lang.F_FUNCTION | lang.F_NEW_MODULE | lang.F_NO_STDIN | lang.F_CREATE_STDOUT | lang.F_CREATE_STDERR)
	fork.FileRef = &ref.File{Source: &ref.Source{Module: "murex/verif-c35"}}
	p := fork.Process
	p.Name.Set(name)
	p.IsMethod = true
	p.IsNot = name[0] == '!' // what lang.createProcess does for a command name starting with !
	stdin := streams.NewStdin()
	_, err := stdin.Write(in)
	if err != nil {
		return nil, err
	}
	out := streams.NewStdin()
	p.Stdin = stdin
	p.Stdout = out
	if err = lang.GoFunctions[name](p); err != nil {
		return nil, err
	}
	return out.ReadAll()
}

var pairs = []string{"escape", "escurl", "eschtml"}

func roundTrip(pair string) {
	n := rt.Param("n")
	l := rt.Choice("len", n+1)
	x := rt.Bytes("x", l) // every byte value 0..255: valid and invalid UTF-8

	enc, err := method(pair, x)
	rt.Assert(err == nil, "the encoder failed")
	if err != nil {
		return
	}
	rt.Reach("encoded")
	dec, err := method("!"+pair, enc)
	rt.Assert(err == nil, "the decoder rejected the encoder's output")
	if err != nil {
		return
	}
	rt.Reach("decoded")
	rt.Assert(len(dec) == len(x), "decoded text has a different length")
	if len(dec) != len(x) {
		return
	}
	rt.Assert(string(dec) == string(x), "decoded text differs from the original")
}

func VerifC35Escape()  { roundTrip("escape") }
func VerifC35Escurl()  { roundTrip("escurl") }
func VerifC35Eschtml() { roundTrip("eschtml") }

// encodedLooking: text that already looks encoded in one of the three schemes (or in the
// notation the encoders themselves emit) - the inputs on which a decoder that does too much,
// or an encoder that does too little, stops being an inverse.
var encodedLooking = []string{
	"&amp;", "&lt;", "&#65;", "&#x41;", "&quot;", "&amp", "&lt", "&#9", "&nbsp;", "&;", "&#;",
	"%41", "%2F", "%", "%%", "%zz", "+", "%25",
	"\\n", "\\x41", "\\u0041", "\\\\", "\\\"", "\"", "\\", "\\101", "\\U00000041",
}

// VerifC35Encoded: x = an encoded-looking text with at most one arbitrary byte before or after it
// through each encoder and its ! form.
func VerifC35Encoded() {
	pair := pairs[rt.Choice("pair", len(pairs))]
	k := rt.Param("pool")
	if k > len(encodedLooking) {
		k = len(encodedLooking)
	}
	mid := encodedLooking[rt.Choice("text", k)]
	// one arbitrary byte before or after the text (or none)
	var pre, post []byte
	switch rt.Choice("side", 3) {
	case 1:
		pre = rt.Bytes("pre", 1)
	case 2:
		post = rt.Bytes("post", 1)
	}
	if pair == "eschtml" {
		// html.EscapeString goes through a 256-entry byte table (one path per byte value):
		// the neighbour is restricted to the bytes that matter to entity syntax
		for _, c := range append(append([]byte{}, pre...), post...) {
			rt.Assume(rt.Or(rt.Or(rt.Or(c == '&', c == ';'), rt.Or(c == '#', c == 'a')), rt.Or(rt.Or(c == '1', c == 'x'), rt.Or(c == '<', c == 0xff))))
		}
	}
	x := append(append(append([]byte{}, pre...), mid...), post...)

	enc, err := method(pair, x)
	rt.Assert(err == nil, "the encoder failed")
	if err != nil {
		return
	}
	dec, err := method("!"+pair, enc)
	rt.Assert(err == nil, "the decoder rejected the encoder's output")
	if err != nil {
		return
	}
	rt.Reach("encoded-looking-decoded")
	rt.Assert(len(dec) == len(x), "decoded text has a different length (encoded-looking input)")
	if len(dec) != len(x) {
		return
	}
	rt.Assert(string(dec) == string(x), "decoded text differs from the original (encoded-looking input)")
}
