package config

// C25 - Config values are scoped like variables.
// Real code executed: Config.Define, Copy, Set, Get/GetFileRef, Default, ExistsAndGlobal.
// Scopes are built exactly as lang/fork.go does: a function call gets `caller.Copy()`
// (fork.go:144), a block inside a call shares the caller's *Config (fork.go:190).

import (
	"github.com/lmorg/murex/lang/types"
	"github.com/lmorg/murex/zzverif/rt"
)

const (
	verifC25app  = "verif"
	verifC25glob = "global-option"
	verifC25loc  = "scoped-option"
)

type verifC25frame struct {
	conf     *Config
	override map[string]*int // model: values set in this call (nil map = session level)
	isBlock  bool            // shares conf and override with the frame below
}

func VerifC25History() {
	n := rt.Param("n")
	maxDepth := rt.Param("depth")
	defaults := map[string]int{verifC25glob: 10, verifC25loc: 20}

	session := newGlobal()
	session.Define(verifC25app, verifC25glob, Properties{Description: "a global option", Default: 10, DataType: types.Integer, Global: true})
	session.Define(verifC25app, verifC25loc, Properties{Description: "a scoped option", Default: 20, DataType: types.Integer})

	// model of the session table
	sessionVal := map[string]int{verifC25glob: 10, verifC25loc: 20}
	stack := []verifC25frame{{conf: session}}

	check := func(tag string) {
		for d := range stack {
			fr := stack[d]
			for _, opt := range []string{verifC25glob, verifC25loc} {
				want := sessionVal[opt]
				if fr.override != nil && fr.override[opt] != nil {
					want = *fr.override[opt]
				}
				v, err := fr.conf.Get(verifC25app, opt, types.Integer)
				rt.Assert(err == nil, tag+": config get failed")
				got, ok := v.(int)
				rt.Assert(ok, tag+": config get did not return an integer")
				if opt == verifC25glob {
					rt.Assert(got == want, tag+": a global option is not seen with its one session-wide value in some scope")
				} else if d == len(stack)-1 {
					rt.Assert(got == want, tag+": the running scope does not see its own / the session's value of a scoped option")
				} else {
					rt.Assert(got == want, tag+": a caller (or the session) sees a scoped option changed by a call, or lost its own value")
				}
			}
		}
	}
	check("start")

	for step := 0; step < n; step++ {
		top := &stack[len(stack)-1]
		op := rt.Choice("op", 7)
		switch op {
		case 0, 1: // config set
			opt := []string{verifC25glob, verifC25loc}[op]
			v := rt.Int("value")
			rt.Assert(top.conf.Set(verifC25app, opt, v, nil) == nil, "config set failed")
			if opt == verifC25glob || top.override == nil {
				sessionVal[opt] = v
			} else {
				vv := v
				top.override[opt] = &vv
			}
			rt.Reach("set")
		case 2, 3: // config default
			opt := []string{verifC25glob, verifC25loc}[op-2]
			rt.Assert(top.conf.Default(verifC25app, opt, nil) == nil, "config default failed")
			if opt == verifC25glob || top.override == nil {
				sessionVal[opt] = defaults[opt]
			} else {
				vv := defaults[opt]
				top.override[opt] = &vv
			}
			rt.Reach("default")
		case 4: // function call
			rt.Assume(len(stack) <= maxDepth)
			stack = append(stack, verifC25frame{conf: top.conf.Copy(), override: map[string]*int{}})
			rt.Reach("call")
		case 5: // block inside the current scope (if/foreach/...): same table
			rt.Assume(len(stack) <= maxDepth)
			stack = append(stack, verifC25frame{conf: top.conf, override: top.override, isBlock: true})
			rt.Reach("block")
		case 6: // return / end of block
			rt.Assume(len(stack) > 1)
			stack = stack[:len(stack)-1]
			rt.Reach("leave")
		}
		check("after step")
	}
}
