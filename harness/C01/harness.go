package streams

// C01 - Pipes deliver every byte exactly once, in order.
// Real code executed: NewStdin, (*Stdin).Open/Close/Write/Read/ReadAll/WriteTo/Stats,
// appendBytes, stdio.WriteTo.

import (
	"io"
	"sync"

	"github.com/lmorg/murex/zzverif/rt"
)

// verifC01rec is the recording destination for WriteTo.
type verifC01rec struct{ got []byte }

func (r *verifC01rec) Write(p []byte) (int, error) {
	r.got = append(r.got, p...)
	return len(p), nil
}

// verifC01new creates a pipe whose back-pressure threshold is max (0 = the default 1 MiB,
// which the bounded histories never reach). The threshold is the exported package
// variable DefaultMaxBufferSize read by NewStdin.
func verifC01new(max int) *Stdin {
	old := DefaultMaxBufferSize
	if max > 0 {
		DefaultMaxBufferSize = max
	}
	s := NewStdin()
	DefaultMaxBufferSize = old
	return s
}

func verifC01sameBytes(got, want []byte, msg string) {
	rt.Assert(len(got) == len(want), msg+" (length)")
	if len(got) != len(want) {
		return
	}
	eq := true
	for i := range got {
		eq = rt.And(eq, got[i] == want[i])
	}
	rt.Assert(eq, msg)
}

// VerifC01History: a history of `ops` operations (Open, Close, Write of 0..w symbolic bytes,
// Read into 0..r bytes, Stats) by one goroutine on one pipe, then all writers close and the
// pipe is drained by one of Read-until-EOF / ReadAll / WriteTo. Ghost state: W = every byte
// written, R = every byte delivered. Calls that would block in a single goroutine (Read on
// an empty open pipe, Write on a full pipe) are not issued here; VerifC01Threads covers them.
func VerifC01History() {
	ops, wmax, rmax := rt.Param("ops"), rt.Param("w"), rt.Param("r")
	max := 0
	if rt.Param("max") > 0 && rt.Choice("bounded", 2) == 1 {
		max = rt.Param("max")
	}
	s := verifC01new(max)
	var W, R []byte
	deps := 0

	checkStats := func(when string) {
		bw, br := s.Stats()
		rt.Assert(bw == uint64(len(W)), when+": Stats reports a written-byte count different from the bytes written")
		rt.Assert(br == uint64(len(R)), when+": Stats reports a read-byte count different from the bytes read")
	}
	read := func(k int, when string) (eof bool) {
		p := make([]byte, k)
		n, err := s.Read(p)
		avail := len(W) - len(R)
		rt.Assert(n >= 0 && n <= k, when+": Read returned a count outside its buffer")
		rt.Assert(n <= avail, when+": Read delivered more bytes than were written and not yet read")
		if n < 0 || n > k || n > avail {
			return true
		}
		verifC01sameBytes(p[:n], W[len(R):len(R)+n], when+": Read delivered bytes that are not the next written bytes")
		R = append(R, p[:n]...)
		if err == io.EOF {
			rt.Assert(deps < 1, when+": Read reported end-of-stream while a writer is still open")
			rt.Assert(len(R) == len(W), when+": Read reported end-of-stream before the buffer was drained")
			return true
		}
		rt.Assert(err == nil, when+": Read failed")
		return false
	}

	for i := 0; i < ops; i++ {
		switch rt.Choice("op", 5) {
		case 0:
			s.Open()
			deps++
			rt.Reach("open")
		case 1:
			rt.Assume(deps > 0)
			s.Close()
			deps--
			rt.Reach("close")
		case 2:
			// would block on a full pipe: only issued when there is room
			rt.Assume(max == 0 || len(W)-len(R) < max)
			k := rt.Choice("wlen", wmax+1)
			p := rt.Bytes("w", k)
			keep := append([]byte{}, p...)
			n, err := s.Write(p)
			rt.Assert(n == k && err == nil, "Write did not accept the whole chunk")
			for j := range p { // the caller may reuse its buffer (io.Writer contract)
				p[j] = ^p[j]
			}
			W = append(W, keep...)
			rt.Reach("write")
		case 3:
			// would block on an empty pipe with open writers
			rt.Assume(len(W)-len(R) > 0 || deps < 1)
			k := rt.Choice("rlen", rmax+1)
			read(k, "Read")
			rt.Reach("read")
		case 4:
			checkStats("Stats")
			rt.Reach("stats")
		}
	}

	// every writer closes; the reading end takes what is left
	for deps > 0 {
		s.Close()
		deps--
	}
	rest := W[len(R):]
	switch rt.Choice("drain", 3) {
	case 0:
		k := 1 + rt.Choice("drain_rlen", rmax)
		for it := 0; ; it++ {
			if read(k, "draining Read") {
				break
			}
			if it > len(W)+2 {
				rt.Fail("draining Read makes no progress: written bytes are never delivered nor end-of-stream reported")
				break
			}
		}
		rt.Assert(len(R) == len(W), "bytes lost: end-of-stream before all written bytes were delivered")
		rt.Reach("drain-read")
	case 1:
		// known: ReadAll overwrites the read counter instead of adding to it
		rt.KnownFinding("C01-readall-counter", len(R) > 0)
		b, err := s.ReadAll()
		rt.Assert(err == nil, "ReadAll failed")
		verifC01sameBytes(b, rest, "ReadAll did not return exactly the bytes written and not yet read")
		R = append(R, b...)
		rt.Reach("drain-readall")
	case 2:
		rec := new(verifC01rec)
		n, err := s.WriteTo(rec)
		rt.Assert(err == nil, "WriteTo failed")
		rt.Assert(n == int64(len(rest)), "WriteTo reports a byte count different from the bytes it moved")
		verifC01sameBytes(rec.got, rest, "WriteTo did not deliver exactly the bytes written and not yet read")
		R = append(R, rec.got...)
		rt.Reach("drain-writeto")
	}
	checkStats("after draining")
}

// verifC01schedule makes every mutex acquisition a scheduling decision: before taking the
// lock, the engine chooses which runnable goroutine continues (a recorded, exhaustively
// explored decision). All accesses to the pipe's shared fields happen inside critical
// sections of its one mutex, so the interleavings of critical sections are the
// interleavings that matter; code between two acquisitions is goroutine-local.
// (rt.SymSched(true) for the whole run would also fork at the `select` on the
// never-cancelled context and at every poll, which multiplies the schedules by about 10^3
// for the smallest configuration without adding behaviours.)
var verifC01zero sync.WaitGroup

func verifC01schedule() {
	rt.Stub("(*sync.Mutex).Lock", func(m *sync.Mutex) {
		rt.SymSched(true)
		verifC01zero.Wait() // counter is zero: returns at once; under the engine a scheduling decision
		rt.SymSched(false)
		for !m.TryLock() {
			rt.Yield()
		}
	})
}

// VerifC01Threads: nw writer goroutines (each: `chunks` writes of `len` bytes, then Close)
// and one reader goroutine (Read into a buffer of 1..r bytes until end-of-stream) on one
// pipe with back-pressure threshold `max`, under every interleaving at synchronisation
// points. Writer k writes the bytes k<<4|0, k<<4|1, ... so the oracle can tell the sources
// apart (contents are covered symbolically by VerifC01History).
func VerifC01Threads() {
	verifC01threads(rt.Param("writers"), rt.Param("chunks"), rt.Param("len"), rt.Param("r"), rt.Param("max"))
}

// VerifC01Backpressure: the same with one writer whose writes exceed the threshold, so that
// the writer must block on the full pipe and be released by the reader.
func VerifC01Backpressure() {
	rt.Assume(rt.Param("max") > 0 && rt.Param("chunks")*rt.Param("len") > rt.Param("max"))
	verifC01threads(1, rt.Param("chunks"), rt.Param("len"), rt.Param("r"), rt.Param("max"))
}

func verifC01threads(nw, chunks, clen, rmax, max int) {
	s := verifC01new(max)
	verifC01schedule()

	var (
		wg       sync.WaitGroup
		closed   = make([]bool, nw)
		finished = make([]bool, nw)
		out      []byte
		sawEOF   bool
	)
	for k := 0; k < nw; k++ {
		s.Open() // murex opens a pipe for a writer before the writer starts
	}
	for k := 0; k < nw; k++ {
		k := k
		wg.Add(1)
		go func() {
			defer wg.Done()
			c := byte(0)
			for j := 0; j < chunks; j++ {
				p := make([]byte, clen)
				for x := range p {
					p[x] = byte(k+1)<<4 | c
					c++
				}
				n, err := s.Write(p)
				rt.Assert(n == clen && err == nil, "Write did not accept the whole chunk")
			}
			finished[k] = true
			s.Close()
			closed[k] = true
		}()
	}
	rlen := 1 + rt.Choice("rlen", rmax)
	wg.Add(1)
	go func() {
		defer wg.Done()
		for {
			p := make([]byte, rlen)
			n, err := s.Read(p)
			rt.Assert(n >= 0 && n <= rlen, "Read returned a count outside its buffer")
			out = append(out, p[:n]...)
			if err == io.EOF {
				sawEOF = true
				for k := 0; k < nw; k++ {
					rt.Assert(finished[k], "end-of-stream reported while a writer is still writing")
					if rt.Symbolic() {
						// exact under the engine (no scheduling point between Close's
						// critical section and the flag); natively the flag may lag
						rt.Assert(closed[k], "end-of-stream reported before every writer closed")
					}
				}
				return
			}
			rt.Assert(err == nil, "Read failed")
		}
	}()
	wg.Wait()
	rt.Reach("all-threads-finished")
	rt.Assert(sawEOF, "reader finished without end-of-stream")

	total := nw * chunks * clen
	rt.Assert(len(out) == total, "bytes lost or duplicated: reader received a different number of bytes than were written")
	next := make([]byte, nw)
	for _, b := range out {
		k := int(b>>4) - 1
		rt.Assert(k >= 0 && k < nw, "reader received a byte nobody wrote")
		if k < 0 || k >= nw {
			return
		}
		rt.Assert(b&15 == next[k], "bytes of one writer reordered, duplicated or lost")
		next[k]++
	}
	bw, br := s.Stats()
	rt.Assert(bw == uint64(total), "Stats reports a written-byte count different from the bytes written")
	rt.Assert(br == uint64(total), "Stats reports a read-byte count different from the bytes read")
}
