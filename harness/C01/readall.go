package streams

// C01 (added by the main session after a seeded change was missed): a writer blocked on a
// full pipe must be released when the reader switches to ReadAll (which lifts the
// back-pressure limit), and ReadAll must then deliver every byte exactly once, in order.

import (
	"sync"
	"time"

	"github.com/lmorg/murex/zzverif/rt"
)

// VerifC01ReadAllRelease: one writer whose writes exceed the threshold `max` (so it blocks),
// one reader that first reads `pre` bytes with Read and then calls ReadAll; every
// interleaving at lock acquisitions. A hang (writer never released / ReadAll never
// returning) shows up as the step bound.
func VerifC01ReadAllRelease() {
	max, chunks, clen := rt.Param("max"), rt.Param("chunks"), rt.Param("len")
	rt.Assume(max > 0 && chunks*clen > max)
	s := verifC01new(max)
	verifC01schedule()

	var wg sync.WaitGroup
	var out []byte
	s.Open()
	wg.Add(2)
	go func() {
		defer wg.Done()
		c := byte(0)
		for j := 0; j < chunks; j++ {
			p := make([]byte, clen)
			for x := range p {
				p[x] = c
				c++
			}
			n, err := s.Write(p)
			rt.Assert(n == clen && err == nil, "Write did not accept the whole chunk")
		}
		s.Close()
	}()
	pre := rt.Choice("pre", 2)
	go func() {
		defer wg.Done()
		if !rt.Symbolic() {
			// native replay of a hang: give the writer time to block on the full pipe first
			// (under the engine the interleaving is a decision, natively it is the OS's)
			time.Sleep(200 * time.Millisecond)
		}
		if pre == 1 {
			p := make([]byte, 1)
			n, _ := s.Read(p)
			out = append(out, p[:n]...)
		}
		b, err := s.ReadAll()
		rt.Assert(err == nil, "ReadAll failed")
		out = append(out, b...)
	}()
	wg.Wait()
	rt.Reach("released-and-drained")
	total := chunks * clen
	rt.Assert(len(out) == total, "bytes lost or duplicated across Read + ReadAll")
	for i := range out {
		rt.Assert(out[i] == byte(i), "bytes reordered or corrupted")
	}
	w, _ := s.Stats()
	rt.Assert(w == uint64(total), "bytes-written counter is wrong")
}
