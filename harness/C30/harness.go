package cache

// C30 - The cache never returns stale or foreign values (in-memory layer).
// Real code executed: initNamespace, read, write, (*internalCacheT).Read/Write/Trim/Clear,
// time.Time arithmetic (After/Before/Add, interpreted from the standard library).

import (
	"context"
	"time"

	"github.com/lmorg/murex/zzverif/rt"
)

var verifC30clock func() time.Time

// verifNow stands in for time.Now in the natively compiled internal.go of a replay.
func verifNow() time.Time { return verifC30clock() }

type verifC30write struct {
	ns, key int
	val     int
	ttl     int64 // seconds
	cleared bool
}

// VerifC30History: `n` operations (write / read / trim / clear) over 2 namespaces x 2 keys.
// The clock (every time.Now) is an arbitrary non-decreasing instant, every TTL an arbitrary
// instant within +-`span` seconds of the time origin, each write stores a distinct value.
func VerifC30History() {
	n := rt.Param("n")
	span := int64(rt.Param("span"))
	base := int64(1_700_000_000)
	var now int64 = base
	rt.Stub("github.com/lmorg/murex/utils/cache.createDb", func(string) {}) // no SQLite layer
	verifC30clock = func() time.Time {
		now = base + rt.Clock()
		return time.Unix(now, 0)
	}
	// engine: every time.Now is the symbolic clock; native replay: internal.go is compiled with
	// `time.Now()` textually replaced by verifNow() (spec.json replay_rewrite) and tag no_cachedb
	rt.Stub("time.Now", verifC30clock)
	nss := []string{"verif_ns0", "verif_ns1"}
	keys := []string{"k0", "k1"}
	configCacheDisabled = false
	for _, ns := range nss {
		initNamespace(ns)
	}
	rt.Assert(!disabled, "cache still disabled after initNamespace")

	var hist []*verifC30write
	for i := 0; i < n; i++ {
		switch rt.Choice("op", 4) {
		case 0:
			w := &verifC30write{ns: rt.Choice("ns", 2), key: rt.Choice("key", 2), val: i + 1}
			off := rt.Int64("ttl")
			rt.Assume(rt.And(off >= -span, off <= span))
			w.ttl = base + off
			write(nss[w.ns], keys[w.key], w.val, time.Unix(w.ttl, 0))
			hist = append(hist, w)
			rt.Reach("write")
		case 1:
			ns, key := rt.Choice("ns", 2), rt.Choice("key", 2)
			got := -1
			hit := read(nss[ns], keys[key], &got)
			readAt := now // the instant the cache looked at the clock (if it did), else the last instant
			if !hit {
				rt.Reach("read-miss")
				break
			}
			rt.Reach("read-hit")
			var last *verifC30write
			for _, w := range hist {
				if w.ns == ns && w.key == key {
					last = w
				}
			}
			rt.Assert(last != nil, "cache returned a value for a key/namespace nothing was written under")
			if last == nil {
				break
			}
			rt.Assert(!last.cleared, "cache returned a value after the cache was cleared")
			rt.Assert(got == last.val, "cache returned a value that is not the most recent one written under that key and namespace")
			rt.Assert(last.ttl > readAt, "cache returned a value whose TTL has expired")
		case 2:
			for _, ns := range nss {
				cache[ns].Trim(context.Background())
			}
			rt.Reach("trim")
		case 3:
			for _, ns := range nss {
				cache[ns].Clear(context.Background())
			}
			for _, w := range hist {
				w.cleared = true
			}
			rt.Reach("clear")
		}
	}
}
