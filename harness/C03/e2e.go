package c03

// C03 - Sequential programs give the same result under any schedule (bounded form):
// a fixed pool of deterministic murex programs is run once under the engine's deterministic
// schedule (reference) and once with preemption-bounded scheduling: at every synchronisation
// point of the whole interpreter (mutex acquisition, channel operation, WaitGroup.Wait,
// goroutine start) the running goroutine may be preempted in favour of any other runnable
// goroutine, at most k times; in a second family of schedules one goroutine (any one) is late:
// it is passed over by the scheduler up to `late` times while anybody else can run. Every such
// schedule must terminate with the same stdout, stderr and exit number.

import (
	"github.com/lmorg/murex/zzverif/mx"
	"github.com/lmorg/murex/zzverif/rt"
)

var programs = []string{
	"out a -> match a",
	"out a; err b; out c",
	"%[1 2 3] -> foreach i { out $i }",
	"function c03f { out x }; c03f -> match x; c03f",
	"try { out a; false; out b }; out c",
	"out a && out b || out c; false || out d",
	"x = 1 + 2; out $x -> cast int",
	"if { out a -> match a } then { out yes } else { out no }",
	"tout json ([1,2,3]) -> [ 1 ]",
	"out a -> cast str -> match a -> cast str",
	// stages that never read their stdin: the pipeline must still wait for every stage
	"err foo | out x | out y; err after",
	"out a | out b | out c; out d",
	"%[1 2] -> foreach i { err $i | out x | out y }",
}

func VerifC03Schedules() {
	pi := rt.Choice("program", rt.Param("programs"))
	p := programs[pi]
	rt.Note(p)
	o1, e1, x1, err1 := mx.Run(p)
	rt.Assert(err1 == nil, "reference run does not compile")
	rt.Reach("reference-run")

	// under the engine: one more run in which every schedule with at most k preemptions is
	// explored; natively (replay of a counterexample): a stress loop of ordinary runs
	runs := 1
	if !rt.Symbolic() {
		runs = 40
	}
	// two families of schedules: (0) at most k preemptions of a running goroutine at
	// synchronisation points; (1) one goroutine - any one started by the run - is late: the
	// scheduler passes it over up to `late` times while anybody else can run
	mode := 0
	if rt.Param("late") > 0 {
		mode = rt.Choice("family", 2)
	}
	for r := 0; r < runs; r++ {
		if mode == 0 {
			rt.PreemptBound(rt.Param("k"))
		} else {
			rt.LateGoroutine(rt.Param("late"))
		}
		o2, e2, x2, err2 := mx.Run(p)
		rt.PreemptBound(0)
		rt.LateGoroutine(0)
		rt.Reach("scheduled-run")
		rt.Assert(err2 == nil, "scheduled run does not compile")
		rt.Assert(o2 == o1, "stdout depends on the schedule: "+o1+" / "+o2)
		rt.Assert(e2 == e1, "stderr depends on the schedule: "+e1+" / "+e2)
		rt.Assert(x2 == x1, "exit number depends on the schedule")
	}
}
