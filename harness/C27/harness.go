package lang

// C27 - Job IDs stay stable while jobs run.
// Real code executed: jobs.Add, GarbageCollect, Get, GetLatest, List, _hasTerminated,
// Process.HasTerminated / SetTerminatedState.

import (
	"strconv"
	"sync"

	"github.com/lmorg/murex/zzverif/rt"
)

// verifC27table builds an arbitrary reachable job table of n slots through the public
// API only: every job is added, an arbitrary subset finishes, the collector runs, then a
// further arbitrary subset finishes. Slots therefore are nil (collected), finished or
// running in every combination the representation allows.
func verifC27table(n int) (j *jobs, procs []*Process, fin []bool) {
	j = NewJobs()
	procs = make([]*Process, n)
	fin = make([]bool, n)
	for i := 0; i < n; i++ {
		procs[i] = new(Process)
		j.Add(procs[i])
	}
	for i := 0; i < n; i++ {
		a := rt.Bool("finished_before_gc")
		procs[i].SetTerminatedState(a)
		fin[i] = a
	}
	if rt.Bool("gc_ran") {
		j.GarbageCollect()
	}
	for i := 0; i < n; i++ {
		b := rt.Bool("finished_after_gc")
		fin[i] = rt.Or(fin[i], b)
		procs[i].SetTerminatedState(fin[i])
	}
	return
}

// verifC27observe checks every observable against the model: slot i holds job id i+1,
// running iff !fin[i].
func verifC27observe(j *jobs, procs []*Process, fin []bool, tag string) {
	n := len(procs)
	// Get: arbitrary id
	k := rt.IntRange("lookup_id", -1, n+2)
	p, err := j.Get(k)
	if err == nil {
		rt.Assert(k >= 1 && k <= n, tag+": Get returned a job for an id that was never issued")
		kk := rt.Concrete(k)
		rt.Assert(p == procs[kk-1], tag+": Get(id) returned a different job: a running job was renumbered")
		rt.Assert(!fin[kk-1], tag+": Get returned a finished job")
	} else {
		rt.Assert(p == nil, tag+": Get returned both a job and an error")
		if k >= 1 && k <= n {
			kk := rt.Concrete(k)
			rt.Assert(fin[kk-1], tag+": Get failed for a running job (its id changed or it was collected)")
		}
	}

	// List: exactly the running jobs, ascending, with id = slot+1
	list := j.List()
	li := 0
	for i := 0; i < n; i++ {
		if fin[i] {
			continue
		}
		rt.Assert(li < len(list), tag+": List misses a running job")
		rt.Assert(list[li].Process == procs[i], tag+": List out of order or lists a job that is not running")
		rt.Assert(list[li].JobId == "%"+strconv.Itoa(i+1), tag+": List shows a running job under another id")
		li++
	}
	rt.Assert(li == len(list), tag+": List contains jobs that are not running")

	// GetLatest: the highest-numbered running job
	lp, lerr := j.GetLatest()
	latest := -1
	for i := n - 1; i >= 0; i-- {
		if !fin[i] {
			latest = i
			break
		}
	}
	if latest < 0 {
		rt.Assert(lerr != nil && lp == nil, tag+": GetLatest returned a job although none is running")
	} else {
		rt.Assert(lerr == nil && lp == procs[latest], tag+": GetLatest is not the newest running job")
	}
}

// VerifC27Step: arbitrary table, one operation, all observables.
func VerifC27Step() {
	n := rt.Param("n")
	j, procs, fin := verifC27table(n)
	rt.Reach("table-built")
	verifC27observe(j, procs, fin, "before")

	switch rt.Choice("op", 3) {
	case 0: // collector runs again
		j.GarbageCollect()
		rt.Reach("op-gc")
		verifC27observe(j, procs, fin, "after gc")
	case 1: // gc, then a new job is added: id reuse rule
		j.GarbageCollect()
		np := new(Process)
		j.Add(np)
		rt.Reach("op-gc-add")
		newid := -1
		for id := 1; id <= n+1; id++ {
			if g, err := j.Get(id); err == nil && g == np {
				newid = id
			}
		}
		rt.Assert(newid >= 1, "a newly added running job cannot be looked up")
		// an id is reused only after every job with that id or a higher one has finished
		for i := 0; i < n; i++ {
			if i+1 >= newid {
				rt.Assert(fin[i], "job id reused while a job with that id or a higher one is still running")
			}
		}
		procs2 := append(append([]*Process{}, procs...), np)
		fin2 := append(append([]bool{}, fin...), false)
		if newid <= n {
			// the new job took over a finished slot: model that slot as the new job
			procs2 = append([]*Process{}, procs[:newid-1]...)
			procs2 = append(procs2, np)
			fin2 = append([]bool{}, fin[:newid-1]...)
			fin2 = append(fin2, false)
		}
		verifC27observe(j, procs2, fin2, "after gc+add")
	case 2: // add without gc: id must be fresh
		np := new(Process)
		j.Add(np)
		rt.Reach("op-add")
		g, err := j.GetLatest()
		rt.Assert(err == nil && g == np, "GetLatest is not the job just added")
	}
}

// VerifC27Concurrent: the collector (started by a finishing job) runs while another goroutine adds
// a new job and a third marks one more job as finished - every interleaving at the
// synchronisation points (jobs.mutex, the per-process termination mutex). Afterwards the new
// job can be looked up under exactly one id, every job that was running keeps its id, and an
// id is reused only after every job with that id or a higher one has finished.
func VerifC27Concurrent() {
	n := rt.Param("n")
	j, procs, fin := verifC27table(n)
	rt.Reach("table-built")
	finishing := -1 // nobody finishes meanwhile
	if rt.Param("finisher") == 1 {
		finishing = rt.Choice("finishing", n+1) - 1
	}
	np := new(Process)

	rt.SymSched(true)
	var wg sync.WaitGroup
	wg.Add(2)
	go func() {
		defer wg.Done()
		j.GarbageCollect()
	}()
	go func() {
		defer wg.Done()
		j.Add(np)
	}()
	if finishing >= 0 {
		wg.Add(1)
		go func() {
			defer wg.Done()
			procs[finishing].SetTerminatedState(true)
		}()
	}
	wg.Wait()
	rt.SymSched(false)
	if finishing >= 0 {
		fin[finishing] = true
	}
	rt.Reach("concurrent-done")

	newid, hits := -1, 0
	for id := 1; id <= n+1; id++ {
		if g, err := j.Get(id); err == nil && g == np {
			newid = id
			hits++
		}
	}
	rt.Assert(hits == 1, "a job added while the collector was running cannot be looked up (or has two ids)")
	if hits != 1 {
		return
	}
	for i := 0; i < n; i++ {
		if i+1 >= newid {
			rt.Assert(fin[i], "job id reused while a job with that id or a higher one is still running")
		}
	}
	procs2 := append(append([]*Process{}, procs...), np)
	fin2 := append(append([]bool{}, fin...), false)
	if newid <= n {
		procs2 = append(append([]*Process{}, procs[:newid-1]...), np)
		fin2 = append(append([]bool{}, fin[:newid-1]...), false)
	}
	verifC27observe(j, procs2, fin2, "after concurrent gc/add")
}
