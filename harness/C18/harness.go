package mkarray

// C18 - mkarray ranges produce the exact sequence.
// Real code executed: cmdA / cmdTa -> mkArray, isNumberArray (rxIsNumberArray on the symbolic
// expression), parseExpression, writeArrayNumber, rangeToArrayNumber, isStringArray,
// writeArrayString (the odometer), rangeToArrayString, strconv.Atoi/Itoa, fmt.Sprintf("%0Nd"),
// the real `str` array writer (one element per line) and streams.Stdin as stdout.
//
// For element-wise comparison without any JSON the data type "verifc18" is registered through
// the public stdio.RegisterWriteArray / lang.RegisterMarshaller API: its array writer and its
// marshaller record what mkarray hands them (`ta verifc18 ...` is `ja` with another encoder).

import (
	"context"

	"github.com/lmorg/murex/builtins/pipes/streams"
	_ "github.com/lmorg/murex/builtins/types/string"
	"github.com/lmorg/murex/lang"
	"github.com/lmorg/murex/lang/ref"
	"github.com/lmorg/murex/lang/stdio"
	"github.com/lmorg/murex/zzverif/rt"
)

var (
	verifC18strings []string
	verifC18ints    []int
	verifC18gotInts bool
)

type verifC18writer struct{}

func (verifC18writer) Write(b []byte) error {
	verifC18strings = append(verifC18strings, string(b))
	return nil
}
func (verifC18writer) WriteString(s string) error {
	verifC18strings = append(verifC18strings, s)
	return nil
}
func (verifC18writer) Close() error { return nil }

func init() {
	stdio.RegisterWriteArray("verifc18", func(stdio.Io) (stdio.ArrayWriter, error) { return verifC18writer{}, nil })
	lang.RegisterMarshaller("verifc18", func(p *lang.Process, v any) ([]byte, error) {
		if a, ok := v.([]int); ok {
			verifC18ints, verifC18gotInts = a, true
		}
		return []byte("<marshalled>"), nil
	})
}

func verifC18proc(params ...string) *lang.Process {
	verifC18strings, verifC18ints, verifC18gotInts = nil, nil, false
	p := new(lang.Process)
	p.Stdin = streams.NewStdin()
	p.Stdout = streams.NewStdin()
	p.Stderr = streams.NewStdin()
	p.Context, p.Done = context.WithCancel(context.Background())
	p.FileRef = &ref.File{Source: &ref.Source{Module: "murex/verif"}}
	p.Parameters.DefineParsed(params)
	return p
}

// verifC18bound: one bound of a range as text: sign, number of leading zeros and the digits above
// the units are concrete per path (rt.Choice), the units digit is symbolic. (All digits symbolic
// was tried first: the solver then needs seconds per query to relate the two bounds.)
type verifC18boundT struct {
	text   string
	val    int
	neg    bool
	tens   int  // |value| / 10
	padded bool // written with leading zeros
	width  int  // number of digit characters
}

func verifC18bound(tag string, neg bool, tens int, symbolic bool, units int) (b verifC18boundT) {
	zeros := 0
	if !neg {
		// what zero-padding means for a negative bound is not stated: negatives are drawn unpadded
		zeros = rt.Choice(tag+"_leading_zeros", rt.Param("zeros")+1)
	}
	var u byte
	if symbolic && zeros == 0 {
		// numeric-array route (rangeToArrayNumber): no digit formatting, stays symbolic
		u = rt.Byte(tag + "_units_digit_symbolic")
		rt.Assume(rt.And(u >= '0', u <= '9'))
	} else {
		// string route: strconv.Itoa reads a digit table, which forces one path per value anyway;
		// drawing the digit with rt.Choice gives the same paths without solver work
		if units < 0 {
			units = rt.Choice(tag+"_units_digit", 10)
		}
		u = byte('0' + units)
	}
	v := tens*10 + int(u-'0')
	b.text = string([]byte{u})
	if tens > 0 {
		b.text = verifC18itoa(tens) + b.text
	}
	nd := len(b.text)
	for i := 0; i < zeros; i++ {
		b.text = "0" + b.text
	}
	b.val, b.neg, b.tens, b.padded, b.width = v, neg, tens, zeros > 0, zeros+nd
	if neg {
		b.text = "-" + b.text
		b.val = -v
	}
	return
}

// verifC18isNumeral: s is the decimal numeral of v, zero-padded to at least w digit characters
// (w = 0: no padding). Decimal numerals are unique, so this pins s down completely. No forking.
func verifC18isNumeral(s string, v, w int) bool {
	neg := v < 0
	abs := rt.IteInt(neg, -v, v)
	nd := 1 + rt.IteInt(abs >= 10, 1, 0) + rt.IteInt(abs >= 100, 1, 0) + rt.IteInt(abs >= 1000, 1, 0)
	digits := rt.IteInt(nd > w, nd, w)
	ok := len(s) == digits+rt.IteInt(neg, 1, 0)
	from := 0
	if len(s) > 0 {
		ok = rt.And(ok, (s[0] == '-') == neg)
	}
	// value of the digit characters; a leading '-' (position 0 only) counts as 0
	val := 0
	for i := from; i < len(s); i++ {
		c := s[i]
		isDigit := rt.And(c >= '0', c <= '9')
		if i == 0 {
			ok = rt.And(ok, rt.Or(isDigit, c == '-'))
			val = rt.IteInt(isDigit, int(c-'0'), 0)
		} else {
			ok = rt.And(ok, isDigit)
			val = val*10 + int(c-'0')
		}
	}
	return rt.And(ok, val == abs)
}

// verifC18padKnown: the inputs of the finding C18-pad-ignored (see NOTES.md): only the bound the
// sequence starts from (ascending), resp. ends at (descending or single), decides the padding.
func verifC18padKnown(m, n verifC18boundT) bool {
	asc := m.val < n.val
	return rt.Or(rt.And(asc, rt.And(n.padded, !m.padded)), rt.And(rt.Not(asc), rt.And(m.padded, !n.padded)))
}

// VerifC18Range: `a [m..n]` (cmd=0: real str writer, one per line) and `ta verifc18 [m..n]`
// (cmd=1: elements as handed to the encoder, what `ja` encodes) for symbolic m and n = m +- d.
func VerifC18Range() {
	limit := rt.Param("limit") // |m|, |n| <= limit (a multiple of 10) + 9
	mNeg := rt.Choice("m_negative", 2) == 1
	mTens := rt.Choice("m_tens", limit/10+1)
	cmd := rt.Choice("cmd", 2)
	d := rt.Choice("span", rt.Param("span")+1) // n = m +- d, d <= 9
	down := rt.Choice("descending", 2) == 1
	if down && d == 0 {
		rt.Assume(false) // span 0 is covered by descending=0
	}
	var m, n verifC18boundT
	if cmd == 1 && !mNeg && rt.Choice("symbolic_digits", 2) == 1 {
		// numeric-array route: units digits symbolic, n's shape drawn (its tens differ by at most one)
		m = verifC18bound("m", false, mTens, true, -1)
		nTens := mTens + rt.Choice("n_tens_offset", 3) - 1
		if nTens < 0 || nTens > limit/10 {
			rt.Assume(false)
		}
		n = verifC18bound("n", false, nTens, true, -1)
		if down {
			rt.Assume(n.val == m.val-d)
		} else {
			rt.Assume(n.val == m.val+d)
		}
	} else {
		m = verifC18bound("m", mNeg, mTens, false, -1)
		nv := m.val + d
		if down {
			nv = m.val - d
		}
		abs := nv
		if abs < 0 {
			abs = -abs
		}
		n = verifC18bound("n", nv < 0, abs/10, false, abs%10)
	}
	// padding width demanded by the statement: "zero-padded to the width of a zero-padded bound"
	w := 0
	switch {
	case m.padded && n.padded:
		if m.width != n.width {
			rt.Assume(false) // two padded bounds of different widths: not determined by the statement
		}
		w = m.width
	case m.padded:
		w = m.width
	case n.padded:
		w = n.width
	}
	rt.KnownFinding("C18-pad-ignored", verifC18padKnown(m, n))

	expr := "[" + m.text + ".." + n.text + "]"
	var err error
	var got []string
	viaInts := false
	if cmd == 0 {
		p := verifC18proc(expr)
		err = cmdA(p)
		rt.Reach("a-returned")
		rt.Assert(err == nil, "`a [m..n]` failed for integers m, n")
		out, _ := p.Stdout.ReadAll()
		// one per line: every element is followed by a newline
		start := 0
		for i := 0; i < len(out); i++ {
			if out[i] == '\n' {
				got = append(got, string(out[start:i]))
				start = i + 1
			}
		}
		rt.Assert(start == len(out), "`a` output does not end with a newline after the last element")
	} else {
		p := verifC18proc("verifc18", expr)
		err = cmdTa(p)
		rt.Reach("ta-returned")
		rt.Assert(err == nil, "`ta <type> [m..n]` failed for integers m, n")
		got = verifC18strings
		if verifC18gotInts {
			rt.Reach("numeric-array")
			viaInts = true
			rt.Assert(len(got) == 0, "both a numeric and a string array were written")
		}
	}

	count := d + 1
	if viaInts {
		rt.Assert(w == 0, "a zero-padded range was turned into numbers (padding lost)")
		rt.Assert(len(verifC18ints) == count, "wrong number of elements")
		for j := 0; j < len(verifC18ints) && j < count; j++ {
			want := m.val + j
			if down {
				want = m.val - j
			}
			rt.Assert(verifC18ints[j] == want, "wrong element in the numeric array")
		}
		return
	}
	rt.Assert(len(got) == count, "wrong number of elements")
	for j := 0; j < len(got) && j < count; j++ {
		want := m.val + j
		if down {
			want = m.val - j
		}
		rt.Assert(verifC18isNumeral(got[j], want, w), "an element is not the expected integer in the expected zero-padded form")
	}
	rt.Reach("compared")
}

// VerifC18Wide: concrete bounds from a pool spanning [-200, 200] (long sequences, all digit-count
// transitions), both directions, through `a`.
func VerifC18Wide() {
	pool := []int{-200, -101, -10, -1, 0, 1, 9, 10, 99, 100, 200}
	mi := rt.Choice("m", len(pool))
	ni := rt.Choice("n", len(pool))
	mv, nv := pool[mi], pool[ni]
	p := verifC18proc("[" + verifC18itoa(mv) + ".." + verifC18itoa(nv) + "]")
	err := cmdA(p)
	rt.Reach("wide-returned")
	rt.Assert(err == nil, "`a [m..n]` failed for integers m, n")
	out, _ := p.Stdout.ReadAll()
	want := ""
	step := 1
	if mv > nv {
		step = -1
	}
	for v := mv; ; v += step {
		want += verifC18itoa(v) + "\n"
		if v == nv {
			break
		}
	}
	rt.Assert(string(out) == want, "`a [m..n]` did not output every integer from m to n, one per line")
}

// verifC18itoa: reference decimal formatting (not strconv).
func verifC18itoa(v int) string {
	if v == 0 {
		return "0"
	}
	neg := v < 0
	if neg {
		v = -v
	}
	s := ""
	for v > 0 {
		s = string(rune('0'+v%10)) + s
		v /= 10
	}
	if neg {
		s = "-" + s
	}
	return s
}

// verifC18lit: a literal of k symbolic bytes without mkarray's meta characters.
func verifC18lit(tag string, k int) string {
	s := rt.String(tag, k)
	for i := 0; i < k; i++ {
		c := s[i]
		rt.Assume(rt.And(c >= '!', c <= '~')) // printable, no blank (blank separates parameters)
		rt.Assume(rt.And(rt.And(c != '[', c != ']'), rt.And(c != ',', c != '\\')))
	}
	return s
}

// VerifC18Odometer: `a pre[..]mid[..]suf` with 2..blocks expansion blocks: cartesian product in
// odometer order, last block fastest. Block contents: comma lists of symbolic one-byte literals
// or a small concrete integer range.
func VerifC18Odometer() {
	nb := 2 + rt.Choice("blocks", rt.Param("blocks")-1)
	lits := make([]string, nb+1) // literal before block i; lits[nb] is the suffix
	vals := make([][]string, nb)
	expr := ""
	for b := 0; b < nb; b++ {
		lits[b] = verifC18lit("literal", rt.Choice("literal_len", 2))
		expr += lits[b] + "["
		if rt.Choice("block_is_range", 2) == 1 {
			lo := rt.Choice("range_from", 3)
			hi := rt.Choice("range_to", 3)
			expr += verifC18itoa(lo) + ".." + verifC18itoa(hi)
			step := 1
			if lo > hi {
				step = -1
			}
			for v := lo; ; v += step {
				vals[b] = append(vals[b], verifC18itoa(v))
				if v == hi {
					break
				}
			}
		} else {
			k := 1 + rt.Choice("list_len", rt.Param("list"))
			for i := 0; i < k; i++ {
				e := verifC18lit("item", 1)
				rt.Assume(e[0] != '.') // a dot inside brackets may start a range
				vals[b] = append(vals[b], e)
				if i > 0 {
					expr += ","
				}
				expr += e
			}
		}
		expr += "]"
	}
	lits[nb] = verifC18lit("literal", rt.Choice("literal_len", 2))
	expr += lits[nb]

	// finding C18-numeric-blocks-flattened (see NOTES.md): nothing but digits in and around the blocks
	allDigits := true
	for b := 0; b <= nb; b++ {
		if len(lits[b]) > 0 {
			allDigits = false
		}
	}
	known := allDigits
	if allDigits {
		for b := 0; b < nb; b++ {
			for _, e := range vals[b] {
				for k := 0; k < len(e); k++ {
					known = rt.And(known, rt.And(e[k] >= '0', e[k] <= '9'))
				}
			}
		}
	}
	rt.KnownFinding("C18-numeric-blocks-flattened", known)

	p := verifC18proc("verifc18", expr)
	err := cmdTa(p)
	rt.Reach("odometer-returned")
	rt.Assert(err == nil, "a well-formed expansion failed")
	rt.Assert(!verifC18gotInts, "an expansion with several blocks was written as one numeric array")
	got := verifC18strings

	total := 1
	for b := 0; b < nb; b++ {
		total *= len(vals[b])
	}
	rt.Assert(len(got) == total, "the expansion does not have one element per combination")
	counter := make([]int, nb)
	for j := 0; j < total && j < len(got); j++ {
		want := ""
		for b := 0; b < nb; b++ {
			want += lits[b] + vals[b][counter[b]]
		}
		want += lits[nb]
		rt.Assert(got[j] == want, "the expansion is not the cartesian product in odometer order (last block fastest)")
		for b := nb - 1; b >= 0; b-- {
			counter[b]++
			if counter[b] < len(vals[b]) {
				break
			}
			counter[b] = 0
		}
	}
	rt.Reach("odometer-compared")
}
