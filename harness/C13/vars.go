package c13

// C13 - typed variables: a scalar stored with `set int|num|bool`, read back with $var as text, re-read
// as a typed value and used in an expression keeps its value. Public API only (this file is also
// the native replay): lang.Variables.Set/GetString/GetValue/GetDataType, types.ConvertGoType, and
// whole murex blocks through mx.Run (parser, `set`, `out`, `if`, expression evaluator).

import (
	"math"
	"strings"

	"github.com/lmorg/murex/lang"
	"github.com/lmorg/murex/lang/types"
	"github.com/lmorg/murex/zzverif/mx"
	"github.com/lmorg/murex/zzverif/rt"
)

const max53 = 1 << 53

func pow10(d int) int {
	p := 1
	for i := 0; i < d; i++ {
		p *= 10
	}
	return p
}

var floats = []float64{
	0, 1, 0.1, 0.2, 0.1 + 0.2, 1.0 / 3, 2.0 / 3, 0.5, 1e15, 1e16, 1e21, 1e22, 1e23, 1e-7, 123456789.125,
	9007199254740991, 9007199254740992, math.MaxFloat64, math.SmallestNonzeroFloat64, 2.2250738585072014e-308,
	2.225073858507201e-308, 3.141592653589793, 6.02214076e23, 1.602176634e-19, 5.551115123125783e-17,
	0.30000000000000004, 1.0000000000000002, 0.9999999999999999, 4503599627370496.5, 72057594037927945,
}

// pick: the scalar of this path (enumerated), its murex type and its Go value.
func pick() (dt string, val any) {
	switch rt.Choice("type", 3) {
	case 0:
		var v int
		switch rt.Choice("family", 3) {
		case 0: // every integer of up to d digits
			for k := 0; k < rt.Param("d"); k++ {
				v = v*10 + rt.Choice("digit", 10)
			}
		case 1: // around the powers of two below 2^53 (every `step`-th)
			step := rt.Param("step")
			if step < 1 {
				step = 1
			}
			v = 1<<(rt.Choice("log2", (52+step)/step)*step) + rt.Choice("delta", 3) - 1
		default: // around the powers of ten
			v = pow10(rt.Choice("log10", 16)) + rt.Choice("delta", 3) - 1
		}
		rt.Assume(v < max53)
		if rt.Choice("negative", 2) == 1 {
			v = -v
		}
		return types.Integer, v
	case 1:
		n := rt.Param("floats")
		if n < 1 || n > len(floats) {
			n = len(floats)
		}
		f := floats[rt.Choice("float", n)]
		if rt.Choice("negative", 2) == 1 {
			f = -f
		}
		dt := types.Number
		if rt.Choice("as-float", 2) == 1 {
			dt = types.Float
		}
		return dt, f
	default:
		return types.Boolean, rt.Choice("bool", 2) == 1
	}
}

func same(a, b any) bool {
	switch x := a.(type) {
	case int:
		y, ok := b.(int)
		return ok && x == y
	case float64:
		y, ok := b.(float64)
		return ok && x == y
	case bool:
		y, ok := b.(bool)
		return ok && x == y
	}
	return false
}

// VerifC13VarAPI: Variables.Set(typed value) -> GetValue gives the same value, GetString its text form,
// and converting that text with the variable's type (what `set <type> x = $var` does) gives the value.
func VerifC13VarAPI() {
	mx.Init()
	dt, val := pick()
	p := lang.NewTestProcess()
	err := p.Variables.Set(p, "verifvar", val, dt)
	rt.Assert(err == nil, "typed variable cannot be set")
	rt.Assert(p.Variables.GetDataType("verifvar") == dt, "variable lost its type")
	got, err := p.Variables.GetValue("verifvar")
	rt.Assert(err == nil && same(got, val), "value read back differs from the value stored")
	s, err := p.Variables.GetString("verifvar")
	rt.Assert(err == nil, "variable cannot be read as text")
	back, err := types.ConvertGoType(s, dt)
	rt.Assert(err == nil, "the text of a typed variable does not convert back to its type: "+s)
	rt.Assert(same(back, val), "typed variable -> text -> typed value changed the value: "+s)
	rt.Reach("api")
}

// VerifC13VarBlock: the same through murex code: `set <type> v=<text>`, `out $v` prints the text,
// `$v == <text>` is true in an expression.
func VerifC13VarBlock() {
	dt, val := pick()
	sv, err := types.ConvertGoType(val, types.String)
	rt.Assert(err == nil, "no text form")
	s := sv.(string)
	rt.Note("value: " + dt + " " + s)

	stdout, stderr, exit, err := mx.Run("set " + dt + " v=" + s + "; out $v")
	rt.Assert(err == nil && exit == 0, "set/out failed: "+stderr)
	rt.Assert(strings.TrimSuffix(stdout, "\n") == s, "`out $v` does not print the value that was stored: "+stdout)
	rt.Reach("out")

	stdout, stderr, exit, err = mx.Run("set " + dt + " v=" + s + "; if { $v == " + s + " } then { out same } else { out differs }")
	rt.Assert(err == nil && exit == 0, "expression with $v failed: "+stderr)
	rt.Assert(strings.TrimSuffix(stdout, "\n") == "same", "$v in an expression is not equal to the value stored: "+s)
	rt.Reach("expression")
}

// VerifC13Reassign: a variable that already holds one scalar is assigned another one of the same
// type (values that compare equal although they are written differently are the interesting
// pairs: 0 and -0, 1 and 1.0 ...): reading it back gives the second value, as text and as value.
func VerifC13Reassign() {
	near := []float64{0, math.Copysign(0, -1), 1, -1, 0.5, 1e21, math.SmallestNonzeroFloat64, -math.SmallestNonzeroFloat64}
	dt := []string{types.Number, types.Float}[rt.Choice("as-float", 2)]
	a := near[rt.Choice("first", len(near))]
	b := near[rt.Choice("second", len(near))]
	sa, _ := types.ConvertGoType(a, types.String)
	sb, _ := types.ConvertGoType(b, types.String)
	rt.Note("values: " + sa.(string) + " then " + sb.(string))

	// through the API
	mx.Init()
	p := lang.NewTestProcess()
	rt.Assert(p.Variables.Set(p, "v", a, dt) == nil, "cannot set the variable")
	rt.Assert(p.Variables.Set(p, "v", b, dt) == nil, "cannot set the variable again")
	s, err := p.Variables.GetString("v")
	rt.Assert(err == nil, "cannot read the variable back")
	rt.Assert(s == sb.(string), "after a second assignment the variable reads as text other than the value assigned last")
	v, err := p.Variables.GetValue("v")
	rt.Assert(err == nil, "cannot read the variable's value back")
	fv, isF := v.(float64)
	rt.Assert(isF && math.Float64bits(fv) == math.Float64bits(b), "after a second assignment the variable holds a value other than the one assigned last")
	rt.Reach("reassigned-api")

	// through murex code
	stdout, stderr, exit, err := mx.Run("set " + dt + " v=" + sa.(string) + "; set " + dt + " v=" + sb.(string) + "; out $v")
	rt.Assert(err == nil && exit == 0, "set/set/out failed: "+stderr)
	rt.Assert(strings.TrimSuffix(stdout, "\n") == sb.(string), "`out $v` after a second `set` does not print the value assigned last: "+stdout)
	rt.Reach("reassigned-block")
}
