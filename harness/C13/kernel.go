package types

// C13 - Scalar values survive conversion to and from strings (ConvertGoType legs).
//
// Real code executed: ConvertGoType, goIntegerRecast, goFloatRecast, goBooleanRecast, goStringRecast,
// FloatToString, IsTrue, strconv.Itoa / ParseFloat / FormatFloat (interpreted from source).

import (
	"math"

	"github.com/lmorg/murex/zzverif/rt"
)

const verifC13max = 1 << 53 // integers of magnitude below 2^53

func verifC13pow10(d int) int {
	p := 1
	for i := 0; i < d; i++ {
		p *= 10
	}
	return p
}

// VerifC13IntNum: every integer v, |v| < 2^53: int -> num -> int and int -> num -> (compare) keep the
// value; the typed re-read of an `int` as `num` and back is this composition.
func VerifC13IntNum() {
	v := rt.Int("v")
	rt.Assume(rt.And(v > -verifC13max, v < verifC13max))
	f, err := ConvertGoType(v, Number)
	rt.Assert(err == nil, "int -> num failed")
	back, err := ConvertGoType(f, Integer)
	rt.Assert(err == nil, "num -> int failed")
	rt.Assert(back.(int) == v, "int -> num -> int changed the value")
	f2, err := ConvertGoType(v, Float)
	rt.Assert(err == nil && f2.(float64) == f.(float64), "int -> float differs from int -> num")
	rt.Reach("int-num-int")

	// the bound of the statement is tight: a witness just above it (vacuity guard, not a claim)
	w := rt.Int("w")
	rt.Assume(rt.Or(w == verifC13max+1, w == -verifC13max-1))
	fw, _ := ConvertGoType(w, Number)
	bw, _ := ConvertGoType(fw, Integer)
	if bw.(int) != w {
		rt.Reach("beyond-2^53-differs")
	}
}

// verifC13ints: boundary integers (all below 2^53 in magnitude)
var verifC13ints = []int{
	0, 1, 9, 10, 99, 100, 101, 999, 1000, 12345, 65535, 65536, 99999, 100000, 999999, 1000000,
	2147483647, 2147483648, 4294967295, 4294967296, 9999999999, 10000000000,
	999999999999999, 1000000000000000, 1000000000000001, 4503599627370495, 4503599627370496, 4503599627370497,
	8999999999999999, 9000000000000000, 9007199254740989, 9007199254740990, 9007199254740991,
	1234567890123456, 7205759403792793, 5764607523034235, 1111111111111111,
}

// VerifC13IntToStr: int -> str -> int / num through the real strconv.Itoa, by enumeration: every
// integer of up to d digits and the boundary list, both signs.
func VerifC13IntToStr() {
	d := rt.Param("d")
	var v int
	switch rt.Choice("family", 4) {
	case 0: // every integer of up to d digits
		for k := 0; k < d; k++ {
			v = v*10 + rt.Choice("digit", 10)
		}
	case 1:
		v = verifC13ints[rt.Choice("boundary", len(verifC13ints))]
	case 2: // around every power of two below 2^53
		v = 1<<rt.Choice("log2", 53) + rt.Choice("delta", 5) - 2
	default: // around every power of ten below 2^53
		v = verifC13pow10(rt.Choice("log10", 16)) + rt.Choice("delta", 5) - 2
	}
	rt.Assume(v < verifC13max)
	if rt.Choice("negative", 2) == 1 {
		v = -v
	}
	s, err := ConvertGoType(v, String)
	rt.Assert(err == nil, "int -> str failed")
	back, err := ConvertGoType(s, Integer)
	rt.Assert(err == nil, "str -> int failed on the text form of an integer")
	rt.Assert(back.(int) == v, "int -> str -> int changed the value")
	f, err := ConvertGoType(s, Number)
	rt.Assert(err == nil && f.(float64) == float64(v), "int -> str -> num changed the value")
	g, err := ConvertGoType(v, Generic)
	rt.Assert(err == nil && g.(int) == v, "int -> * changed the value")
	rt.Reach("int-str-int")
}

// VerifC13Bool: both booleans through every scalar type and back.
func VerifC13Bool() {
	b := rt.Bool("b")
	s, err := ConvertGoType(b, String)
	rt.Assert(err == nil, "bool -> str failed")
	back, err := ConvertGoType(s, Boolean)
	rt.Assert(err == nil && back.(bool) == b, "bool -> str -> bool changed the value")
	i, err := ConvertGoType(b, Integer)
	rt.Assert(err == nil, "bool -> int failed")
	back, err = ConvertGoType(i, Boolean)
	rt.Assert(err == nil && back.(bool) == b, "bool -> int -> bool changed the value")
	f, err := ConvertGoType(b, Number)
	rt.Assert(err == nil, "bool -> num failed")
	back, err = ConvertGoType(f, Boolean)
	rt.Assert(err == nil && back.(bool) == b, "bool -> num -> bool changed the value")
	same, err := ConvertGoType(b, Boolean)
	rt.Assert(err == nil && same.(bool) == b, "bool -> bool changed the value")
	rt.Reach("bool")
}

// verifC13floats: finite doubles at the edges of the format and of the formatting algorithm.
var verifC13floats = []float64{
	0, math.Copysign(0, -1), 1, -1, 0.1, 0.2, 0.3, 0.1 + 0.2, 1.0 / 3, 2.0 / 3, 0.5, 1.5, 100, 1e15, 1e16, 1e17,
	1e21, 1e22, 1e23, 1e-5, 1e-6, 1e-7, 123456789.125, 9007199254740991, 9007199254740992, 9007199254740994,
	math.MaxFloat64, math.SmallestNonzeroFloat64, 2.2250738585072014e-308, 2.225073858507201e-308,
	4.9406564584124654e-324, 1.7976931348623157e308, 5e-324, 1.7976931348623155e308,
	3.141592653589793, 2.718281828459045, 6.02214076e23, 1.602176634e-19, 299792458,
	5.551115123125783e-17, 8.41e21, 9.5367431640625e-07, 4.35, 2.675, 1.005, 0.30000000000000004,
	1.0000000000000002, 0.9999999999999999, 4503599627370496.5, 72057594037927945, 1.8446744073709552e19,
	float64(float32(0.1)), 7.038531e-26, 1.5e-45, 8.98846567431158e307, 4.4501477170144023e-308,
}

// VerifC13FloatPool: float -> str -> num for the doubles above and their negations (real
// strconv.FormatFloat('f', -1) and ParseFloat). Enumeration, not a proof over all doubles.
func VerifC13FloatPool() {
	var f float64
	if rt.Choice("family", 2) == 0 {
		f = verifC13floats[rt.Choice("float", len(verifC13floats))]
	} else {
		// every `stride`-th biased exponent 0 (subnormals) .. 2046, with six mantissa patterns
		stride := rt.Param("stride")
		if stride < 1 {
			stride = 1
		}
		e := rt.Choice("exponent", (2046+stride)/stride) * stride
		if e > 2046 {
			e = 2046
		}
		m := []uint64{0, 1, 1<<52 - 1, 0x5555555555555, 0xAAAAAAAAAAAAA, 1 << 51}[rt.Choice("mantissa", 6)]
		f = math.Float64frombits(uint64(e)<<52 | m)
	}
	if rt.Choice("negative", 2) == 1 {
		f = -f
	}
	s, err := ConvertGoType(f, String)
	rt.Assert(err == nil, "num -> str failed")
	back, err := ConvertGoType(s, Number)
	rt.Assert(err == nil, "str -> num failed on the text form of a number")
	rt.Assert(back.(float64) == f, "num -> str -> num changed the value")
	// the same value also means the same sign of zero (the quantifier names negative zero)
	rt.Assert(math.Signbit(back.(float64)) == math.Signbit(f), "num -> str -> num changed the sign of zero")
	back, err = ConvertGoType(s, Float)
	rt.Assert(err == nil && back.(float64) == f, "num -> str -> float changed the value")
	rt.Assert(math.Signbit(back.(float64)) == math.Signbit(f), "num -> str -> float changed the sign of zero")
	g, err := ConvertGoType(f, Number)
	rt.Assert(err == nil && g.(float64) == f, "num -> num changed the value")
	rt.Reach("float-str-float")
}
