// Package c11 - C11 end to end: the `set` and `global` builtins (every way of writing them) and
// expression assignment, run by the real interpreter inside nested function calls.
package c11

import (
	"github.com/lmorg/murex/zzverif/mx"
	"github.com/lmorg/murex/zzverif/rt"
)

type write struct {
	text   string // murex code; V stands for the value
	global bool   // writes the global (else: a binding local to the function that runs it)
	value  string // what $x reads afterwards ("" = V)
}

var writes = []write{
	{"set x = V", false, ""}, {"global x = V", true, ""},
	{"set int x = 5", false, "5"}, {"global int x = 5", true, "5"},
	{"out V -> set x", false, ""}, {"out V -> global x", true, ""},
	{"tout int 5 -> set x", false, "5"}, {"tout int 5 -> global x", true, "5"},
	{"out 7 -> set int x", false, "7"}, {"out 7 -> global int x", true, "7"},
	{"tout json [1,2] -> set x", false, "[1,2]"}, {"tout json [1,2] -> global x", true, "[1,2]"},
	{"x = \"V\"", false, ""}, {"$GLOBAL.x = \"V\"", true, ""},
	{"tout bool true -> set x", false, "true"}, {"tout bool true -> global x", true, "true"},
	{"set str x = V", false, ""}, {"global str x = V", true, ""},
}

// VerifC11Builtins: function c11inner does the write, c11outer calls it; $x is read inside
// c11inner, in c11outer after the call, and by the caller of c11outer; a global x may exist
// beforehand. A local write is visible in c11inner only; a global write everywhere.
func VerifC11Builtins() {
	k := rt.Param("writes")
	if k > len(writes) {
		k = len(writes)
	}
	w := writes[rt.Choice("write", k)]
	v := "v" + rt.String("value", 1)
	rt.Assume(rt.And(v[1] >= 'a', v[1] <= 'z'))
	pre := rt.Choice("global-exists", 2) == 1

	sub := func(s string) string {
		out := ""
		for i := 0; i < len(s); i++ {
			if s[i] == 'V' {
				out += v
			} else {
				out += s[i : i+1]
			}
		}
		return out
	}
	block := ""
	if pre {
		block += "global x = old\n"
	}
	block += "function c11inner { " + sub(w.text) + "; out \"i:$x\" }\n"
	block += "function c11outer { c11inner; out \"o:$x\" }\n"
	block += "c11outer; out \"t:$x\"\n"
	rt.Note(block)
	stdout, _, _, err := mx.Run(block)
	// leave no global behind for the next path / run
	mx.Run("!global x")
	rt.Assert(err == nil, "the program does not compile")
	rt.Reach("ran")
	val := w.value
	if val == "" {
		val = v
	}
	outside := ""
	if pre {
		outside = "old"
	}
	if w.global {
		outside = val
	}
	want := "i:" + val + "\no:" + outside + "\nt:" + outside + "\n"
	if !pre && !w.global {
		// nothing is visible outside c11inner: reading $x there is an error (strict-vars is on
		// by default) and the two `out` commands print nothing
		want = "i:" + val + "\n"
		rt.Reach("undefined-outside")
	}
	rt.Assert(len(stdout) == len(want), "a variable written in a function is (not) visible where the scope rules say (output length)")
	rt.Assert(stdout == want, "a variable written in a function is (not) visible where the scope rules say")
}
