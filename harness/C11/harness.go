package lang

// C11 - Variables are scoped per function call; globals are shared.
// Real code executed: Process.Fork(F_FUNCTION) / Fork(F_PARENT_VARTABLE), NewVariables,
// Variables.Set (plain and `GLOBAL.name` path -> alter.Alter -> setGlobalVar ->
// GlobalVariables.Set), Variables.GetValue / GetString (lookup chain local -> GlobalVariables
// -> environment), Variables.Unset.

import (
	"context"

	"github.com/lmorg/murex/config"
	"github.com/lmorg/murex/lang/types"
	"github.com/lmorg/murex/zzverif/rt"
)

func verifC11root() *Process {
	config.InitConf.Define("proc", "strict-vars", config.Properties{
		Description: "strict-vars", Default: true, DataType: types.Boolean,
	})
	p := new(Process)
	p.Config = config.InitConf.Copy()
	p.Variables = NewVariables(p)
	p.Context, p.Done = context.WithCancel(context.Background())
	p.Parent = ShellProcess
	p.Scope = p
	p.Next = ShellProcess
	p.Previous = ShellProcess
	p.Forks = NewForkManagement()
	p.Id = 1000
	p.Name.Set("caller")
	return p
}

// VerifC11History: scopes: 0 = caller (a function scope), 1 = a function called by it,
// 2 = a function called by that one, 3 = a block (if/foreach/sub-shell) of the caller, which
// shares the caller's variables. n operations, each a free choice of
// {set local, set $GLOBAL.name, unset} x name {x,y} x scope, values are symbolic text.
// After every step every name is read in every scope (plain $name and $GLOBAL.name) and compared
// with a scope model written from the statement.
func VerifC11History() {
	n := rt.Param("n")
	vlen := rt.Param("vlen")
	names := []string{"x", "y"}

	caller := verifC11root()
	callee := caller.Fork(F_FUNCTION | F_NO_STDIN | F_NO_STDOUT | F_NO_STDERR)
	nested := callee.Fork(F_FUNCTION | F_NO_STDIN | F_NO_STDOUT | F_NO_STDERR)
	block := caller.Fork(F_PARENT_VARTABLE | F_NO_STDIN | F_NO_STDOUT | F_NO_STDERR)
	procs := []*Process{caller, callee.Process, nested.Process, block.Process}
	table := []int{0, 1, 2, 0} // which variable table each scope uses in the model
	rt.Reach("scopes-built")

	type binding struct {
		set bool
		val string
	}
	local := make([]map[string]binding, 3)
	for i := range local {
		local[i] = map[string]binding{}
	}
	global := map[string]binding{}

	check := func(tag string) {
		for s, p := range procs {
			for _, name := range names {
				want, defined := local[table[s]][name], local[table[s]][name].set
				if !defined {
					want, defined = global[name], global[name].set
				}
				str, serr := p.Variables.GetString(name)
				val, verr := p.Variables.GetValue(name)
				if defined {
					rt.Assert(serr == nil && verr == nil, tag+": a variable visible in this scope cannot be read")
					rt.Assert(str == want.val, tag+": $name is not this scope's own value (or, without one, the global)")
					vs, ok := val.(string)
					rt.Assert(ok && vs == want.val, tag+": value read differs from the value set in this scope")
				} else {
					rt.Assert(serr != nil, tag+": reading a variable that is not defined in this scope gives a value instead of an error")
					rt.Assert(verr != nil && val == nil, tag+": a variable set in another call is visible")
				}
				// $GLOBAL.name is the same in every scope
				gval, gerr := p.Variables.GetValue("GLOBAL." + name)
				if global[name].set {
					gs, ok := gval.(string)
					rt.Assert(gerr == nil && ok && gs == global[name].val, tag+": $GLOBAL.name differs between scopes or from the value set")
				} else {
					rt.Assert(gerr != nil || gval == nil, tag+": $GLOBAL.name has a value although no global was set")
				}
			}
		}
	}
	check("start")

	for step := 0; step < n; step++ {
		op := rt.Choice("op", 3)
		name := names[rt.Choice("name", len(names))]
		s := rt.Choice("scope", len(procs))
		p := procs[s]
		switch op {
		case 0:
			v := rt.String("value", vlen)
			rt.Assert(p.Variables.Set(p, name, v, types.String) == nil, "set failed")
			local[table[s]][name] = binding{true, v}
			rt.Reach("set-local")
		case 1:
			v := rt.String("value", vlen)
			rt.Assert(p.Variables.Set(p, "GLOBAL."+name, v, types.String) == nil, "$GLOBAL.name = value failed")
			global[name] = binding{true, v}
			rt.Reach("set-global")
		case 2:
			err := p.Variables.Unset(name)
			if local[table[s]][name].set {
				rt.Assert(err == nil, "unset of a variable of this scope failed")
				rt.Reach("unset-local")
			} else {
				rt.Reach("unset-missing")
			}
			delete(local[table[s]], name)
		}
		check("after step")
	}
}
