package c14

// C14 (jsonl leg): `format jsonl` then `format json` on an array gives the same array.
// Real code executed: lang.MarshalData(p,"jsonl",v) -> jsonlines.marshal, lang.UnmarshalDataBuffered
// (p,b,"jsonl") -> jsonlines.unmarshal (bufio.Scanner, one encoding/json document per line, the
// table heuristic for leading array rows). Element contents are concrete (encoding/json is a
// reflection codec: the engine runs it on concrete values only); the structure is the variable.

import (
	"encoding/json"

	"github.com/lmorg/murex/lang"
	"github.com/lmorg/murex/lang/types"
	"github.com/lmorg/murex/zzverif/mx"
	"github.com/lmorg/murex/zzverif/rt"
)

func verifJsonlElement(name string, kinds int) any {
	switch rt.Choice(name, kinds) {
	case 0:
		return "x"
	case 1:
		return []any{"a", "b"}
	case 2:
		return map[string]any{"k": "v"}
	case 3:
		return []any{"c"}
	case 4:
		return ""
	case 5:
		return true
	case 6:
		return []any{"d", "e", "f"}
	case 7:
		return map[string]any{}
	default:
		return "y z"
	}
}

// VerifC14Jsonl: arrays of 0..k elements, each a string, an array of strings, an object, a boolean.
func VerifC14Jsonl() {
	mx.Init()
	k := rt.Choice("elements", rt.Param("k")+1)
	orig := make([]any, k)
	for i := range orig {
		orig[i] = verifJsonlElement("kind", rt.Param("kinds"))
	}
	fork := lang.ShellProcess.Fork(lang.F_FUNCTION | lang.F_NEW_MODULE | lang.F_CREATE_STDIN | lang.F_CREATE_STDOUT | lang.F_CREATE_STDERR)
	fork.FileRef = verifFileRef
	fork.Stdin.SetDataType(types.Json)
	b, err := lang.MarshalData(fork.Process, types.JsonLines, orig)
	rt.Assert(err == nil, "jsonl marshaller failed on an array")
	rt.Reach("jsonl-marshalled")
	v, err := lang.UnmarshalDataBuffered(fork.Process, b, types.JsonLines)
	rt.Assert(err == nil, "jsonl unmarshaller failed on murex's own jsonl output")
	rt.Reach("jsonl-unmarshalled")
	want, _ := json.Marshal(orig)
	got, err := json.Marshal(v)
	rt.Assert(err == nil, "the value read back cannot be written as JSON")
	if k == 0 {
		// an empty array has no lines: read back as an empty array or as nothing
		rt.Assert(string(got) == "[]" || string(got) == "null", "an empty array did not come back empty")
		return
	}
	rt.Note("jsonl=" + string(b) + " back=" + string(got))
	rt.Assert(string(got) == string(want), "format jsonl -> format json changed the array")
}
