// Package c14 - C14 (csv leg): converting a table of string cells to csv and back yields the
// same table: no row dropped, no cell altered.
//
// Real code executed: lang.MarshalData(p,"csv",table) -> csv.marshal -> encoding/csv.Writer,
// lang.UnmarshalDataBuffered(p, bytes, "csv") -> csv.unmarshal -> encoding/csv.Reader, bufio,
// streams.Stdin, with murex's default csv configuration (separator `,`, comment `#`).
// This is what `format csv` / `format json` do with the table (cmdFormat = UnmarshalData then
// MarshalData); the JSON side (reflection codec) is not part of the run.
package c14

import (
	"github.com/lmorg/murex/lang"
	"github.com/lmorg/murex/lang/ref"
	"github.com/lmorg/murex/lang/types"
	"github.com/lmorg/murex/zzverif/mx"
	"github.com/lmorg/murex/zzverif/rt"
)

var verifFileRef = &ref.File{Source: &ref.Source{Module: "murex/verif-c14"}}

// hostile alphabet: comment character, separator, quote, blank, a letter, newline
func verifCell(n int) string {
	b := rt.Bytes("cell", rt.Choice("len", n+1))
	for _, c := range b {
		ok := rt.Or(c == '#', c == ',')
		ok = rt.Or(ok, rt.Or(c == '"', c == ' '))
		ok = rt.Or(ok, rt.Or(c == 'a', c == '\n'))
		rt.Assume(ok)
	}
	return string(b)
}

func VerifC14Csv() {
	mx.Init()
	rows := 1 + rt.Choice("rows", rt.Param("rows"))
	cols := 1 + rt.Choice("cols", rt.Param("cols"))
	n := rt.Param("n")
	table := make([][]string, rows)
	orig := make([][]string, rows)
	commentRow, emptyRow := false, false
	for i := range table {
		table[i] = make([]string, cols)
		for j := range table[i] {
			table[i][j] = verifCell(n)
		}
		orig[i] = append([]string{}, table[i]...)
		if len(table[i][0]) > 0 {
			commentRow = rt.Or(commentRow, table[i][0][0] == '#')
		} else if cols == 1 {
			emptyRow = true
		}
	}
	rt.KnownFinding("C14-csv-comment-row-dropped", commentRow)
	rt.KnownFinding("C14-csv-empty-single-cell-row-dropped", emptyRow)
	if rt.Param("setaside") == 1 { // diagnostic runs only; always 0 in spec.json
		rt.Assume(rt.And(!commentRow, !emptyRow))
	}

	fork := lang.ShellProcess.Fork(lang.F_FUNCTION | lang.F_NEW_MODULE | lang.F_CREATE_STDIN | lang.F_CREATE_STDOUT | lang.F_CREATE_STDERR)
	fork.FileRef = verifFileRef
	fork.Stdin.SetDataType(types.Json) // the table came from JSON (`... -> format csv`)
	b, err := lang.MarshalData(fork.Process, "csv", table)
	rt.Assert(err == nil, "csv marshaller failed on a table of strings")
	rt.Reach("marshalled")

	v, err := lang.UnmarshalDataBuffered(fork.Process, b, "csv")
	rt.Assert(err == nil, "csv unmarshaller failed on murex's own csv output")
	got, ok := v.([][]string)
	rt.Assert(ok, "csv unmarshaller did not return a table")
	rt.Reach("unmarshalled")

	rt.Assert(len(got) == len(orig), "a row was dropped or added by the csv round trip")
	for i := range orig {
		rt.Assert(len(got[i]) == len(orig[i]), "a row changed its number of cells in the csv round trip")
		for j := range orig[i] {
			rt.Assert(got[i][j] == orig[i][j], "a cell was altered by the csv round trip")
		}
	}
}
