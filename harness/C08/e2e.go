// Package c08: C08 - Variable arguments are passed verbatim, with no re-splitting.
//
// Real code executed: expressions.StatementParametersParser (the exported entry lang uses to
// turn a statement's source text into the command's parameters at execution time) ->
// ParserT.ParseStatement(exec=true) -> parseVarScalar, parseVarParenthesis, getVar,
// parseVarArray, getArray, processStatementArrays, nextParameter, lang.Variables.Set/GetString,
// utils.CrLfTrimString, the `str` ReadArray handler; and (VerifC08Run) the whole interpreter via
// Process.Fork/Execute with a recording builtin.
package c08

import (
	"github.com/lmorg/murex/lang"
	"github.com/lmorg/murex/lang/expressions"
	"github.com/lmorg/murex/lang/ref"
	"github.com/lmorg/murex/lang/types"
	"github.com/lmorg/murex/zzverif/mx"
	"github.com/lmorg/murex/zzverif/rt"
)

func newScope() *lang.Fork {
	mx.Init()
	fork := lang.ShellProcess.Fork(lang.F_FUNCTION | lang.F_NEW_MODULE | lang.F_NO_STDIN | lang.F_CREATE_STDOUT | lang.F_CREATE_STDERR)
	fork.Name.Set("verif-c08")
	fork.FileRef = &ref.File{Source: &ref.Source{Module: "murex/verif-c08"}}
	return fork
}

// asciiString: n symbolic bytes, every 7-bit value (controls, quotes, $ @ ~ * ; | & { } newline...).
func asciiString(name string, n int, noNewline bool) string {
	s := rt.String(name, n)
	for i := 0; i < n; i++ {
		rt.Assume(s[i] < 0x80)
		if noNewline {
			rt.Assume(s[i] != '\n')
		}
	}
	return s
}

// verbatimScalar: got equals v, or v with one trailing "\n", "\r" or "\r\n" removed
// ("at most one trailing CR/LF removed"). Lengths are concrete, so `if` on them does not fork.
func verbatimScalar(got, v string) bool {
	ok := got == v
	n := len(v)
	if n >= 1 && len(got) == n-1 {
		ok = rt.Or(ok, rt.And(got == v[:n-1], rt.Or(v[n-1] == '\n', v[n-1] == '\r')))
	}
	if n >= 2 && len(got) == n-2 {
		ok = rt.Or(ok, rt.And(got == v[:n-2], rt.And(v[n-2] == '\r', v[n-1] == '\n')))
	}
	return ok
}

var scalarForms = []string{
	"cmd $v",       // the plain form
	"cmd $(v)",     // the parenthesised form of the same variable reference
	"cmd a $v b",   // between two other arguments
	"cmd $v $v",    // twice
	"cmd $v\n",     // end of line after it
	"cmd\t$v\t-x",  // tabs as separators
}

func scalarExpect(form int, got []string, v string) bool {
	switch form {
	case 0, 1, 4:
		return len(got) == 1 && verbatimScalar(got[0], v)
	case 2:
		return len(got) == 3 && rt.And(got[0] == "a", rt.And(verbatimScalar(got[1], v), got[2] == "b"))
	case 3:
		return len(got) == 2 && rt.And(verbatimScalar(got[0], v), verbatimScalar(got[1], v))
	case 5:
		return len(got) == 2 && rt.And(verbatimScalar(got[0], v), got[1] == "-x")
	}
	return false
}

// VerifC08Scalar: `cmd $v` with v holding every ASCII string of 0..n bytes.
func VerifC08Scalar() {
	n := rt.Param("n")
	l := rt.Choice("len", n+1)
	form := rt.Choice("form", rt.Param("forms"))
	v := asciiString("v", l, false)

	fork := newScope()
	err := fork.Variables.Set(fork.Process, "v", v, types.String)
	rt.Assert(err == nil, "could not set a string variable")

	cmd, params, err := expressions.StatementParametersParser([]rune(scalarForms[form]), fork.Process)
	rt.Reach("scalar-parsed")
	rt.Assert(err == nil, "statement with a $variable argument failed to parse/expand")
	rt.Assert(cmd == "cmd", "command name changed")
	rt.Assert(scalarExpect(form, params, v), "$v was not passed as exactly one verbatim argument")
}

func isSpace(c byte) bool {
	return rt.Or(rt.And(c >= 9, c <= 13), c == ' ')
}

var arrayForms = []string{
	"cmd @a",
	"cmd x @a y",
	"cmd @a\n",
}

// VerifC08Array: `cmd @a` with a holding k elements (a `str` list: one element per line) of
// 1..m ASCII bytes each, no newline inside an element.
func VerifC08Array() {
	k := rt.Choice("elems", rt.Param("k")) + 1
	m := rt.Param("m")
	form := rt.Choice("form", rt.Param("forms"))
	elems := make([]string, k)
	data := ""
	for i := 0; i < k; i++ {
		l := rt.Choice("len", m) + 1
		elems[i] = asciiString("e", l, true)
		// what an element of a `str` list is, is defined by that data type: a line with the
		// surrounding white space removed. So elements here neither start nor end with white
		// space (white space inside an element is kept and is the interesting case).
		rt.Assume(rt.Not(isSpace(elems[i][0])))
		rt.Assume(rt.Not(isSpace(elems[i][l-1])))
		if i > 0 {
			data += "\n"
		}
		data += elems[i]
	}

	fork := newScope()
	err := fork.Variables.Set(fork.Process, "a", data, types.String)
	rt.Assert(err == nil, "could not set a list variable")

	cmd, params, err := expressions.StatementParametersParser([]rune(arrayForms[form]), fork.Process)
	rt.Reach("array-parsed")
	rt.Assert(err == nil, "statement with an @array argument failed to parse/expand")
	rt.Assert(cmd == "cmd", "command name changed")
	off, want := 0, k
	if form == 1 {
		off, want = 1, k+2
	}
	rt.Assert(len(params) == want, "@a did not give exactly one argument per element")
	if len(params) != want {
		return
	}
	ok := true
	for i := 0; i < k; i++ {
		ok = rt.And(ok, params[off+i] == elems[i])
	}
	if form == 1 {
		ok = rt.And(ok, rt.And(params[0] == "x", params[want-1] == "y"))
	}
	rt.Assert(ok, "an @a element was not passed verbatim")
}

// ---- end to end: the block is compiled and run by the real interpreter; a Go builtin records
// the parameters it is started with (what $PARAMS of a function would show).

var recorded [][]string

func init() {
	lang.DefineFunction("verifc08rec", func(p *lang.Process) error {
		recorded = append(recorded, p.Parameters.StringArray())
		return nil
	}, types.Null)
}

// quiet: nothing else ran that wrote to stdout or stderr (the recording builtin writes nothing).
func quiet(fork *lang.Fork) {
	bErr, _ := fork.Stderr.ReadAll()
	bOut, _ := fork.Stdout.ReadAll()
	rt.Assert(len(bOut) == 0 && len(bErr) == 0, "something besides the one command produced output")
}

// VerifC08Run: `verifc08rec $v` executed as a block; exactly one command runs and it gets one
// verbatim argument.
func VerifC08Run() {
	n := rt.Param("n")
	l := rt.Choice("len", n+1)
	v := asciiString("v", l, false)

	fork := newScope()
	err := fork.Variables.Set(fork.Process, "v", v, types.String)
	rt.Assert(err == nil, "could not set a string variable")
	recorded = nil
	_, err = fork.Execute([]rune("verifc08rec $v"))
	rt.Reach("block-ran")
	rt.Assert(err == nil, "block failed to compile")
	rt.Assert(len(recorded) == 1, "not exactly one command ran")
	quiet(fork)
	if len(recorded) != 1 {
		return
	}
	rt.Assert(len(recorded[0]) == 1 && verbatimScalar(recorded[0][0], v), "$v did not arrive as exactly one verbatim argument")
}

// ---- json arrays (the usual murex array value). encoding/json runs on concrete values only, so
// the elements come from a concrete pool of injection-shaped strings (every combination is run).

var pool = []string{
	"a b", "", "$v", "@a", "~", "*", "?", ";verifc08rec x", "|verifc08rec x", "&& verifc08rec x", "${verifc08rec x}",
	"{", "}", "'", "\"", " lead", "trail ", "a\tb", "\\", "\\n", "#c", "`x`", "(", "%[1]", "->", "<x>", "é ü", "a=b", ":", "\x01",
}

func jsonQuote(s string) string {
	const hex = "0123456789abcdef"
	out := []byte{'"'}
	for i := 0; i < len(s); i++ {
		c := s[i]
		switch {
		case c == '"' || c == '\\':
			out = append(out, '\\', c)
		case c < 0x20:
			out = append(out, '\\', 'u', '0', '0', hex[c>>4], hex[c&15])
		default:
			out = append(out, c)
		}
	}
	return string(append(out, '"'))
}

// VerifC08JsonArray: a json array variable of 1..k pool elements; `verifc08rec @a` is run as a
// block by the interpreter: exactly one command runs, with one verbatim argument per element.
func VerifC08JsonArray() {
	k := rt.Choice("elems", rt.Param("k")) + 1
	np := rt.Param("pool")
	elems := make([]string, k)
	text := "["
	hasEmpty := false
	for i := 0; i < k; i++ {
		elems[i] = pool[rt.Choice("e", np)]
		if elems[i] == "" {
			hasEmpty = true
		}
		if i > 0 {
			text += ","
		}
		text += jsonQuote(elems[i])
	}
	text += "]"
	rt.KnownFinding("C08-empty-array-element", hasEmpty)

	fork := newScope()
	err := fork.Variables.Set(fork.Process, "a", text, types.Json)
	rt.Assert(err == nil, "could not set a json array variable")
	recorded = nil
	_, err = fork.Execute([]rune("verifc08rec @a"))
	rt.Reach("json-array-ran")
	rt.Assert(err == nil, "block failed to compile")
	rt.Assert(len(recorded) == 1, "not exactly one command ran")
	quiet(fork)
	if len(recorded) != 1 {
		return
	}
	got := recorded[0]
	rt.Assert(len(got) == k, "@a did not give exactly one argument per array element")
	if len(got) != k {
		return
	}
	for i := 0; i < k; i++ {
		rt.Assert(got[i] == elems[i], "an @a element was not passed verbatim")
	}
}

// VerifC08PoolScalar: `verifc08rec $v` run as a block, v from the concrete pool (adds non-ASCII
// and multi-character injection shapes to VerifC08Run).
func VerifC08PoolScalar() {
	v := pool[rt.Choice("v", rt.Param("pool"))]
	fork := newScope()
	err := fork.Variables.Set(fork.Process, "v", v, types.String)
	rt.Assert(err == nil, "could not set a string variable")
	recorded = nil
	_, err = fork.Execute([]rune("verifc08rec $v"))
	rt.Reach("pool-scalar-ran")
	rt.Assert(err == nil, "block failed to compile")
	rt.Assert(len(recorded) == 1, "not exactly one command ran")
	quiet(fork)
	if len(recorded) != 1 {
		return
	}
	rt.Assert(len(recorded[0]) == 1 && recorded[0][0] == v, "$v did not arrive as exactly one verbatim argument")
}
