package c08

// C08 - what stands before and after the variable on the command line must not matter: the
// variable still gives exactly one argument (scalar) / one argument per element (array), verbatim,
// and the neighbours keep their own arguments.

import (
	"github.com/lmorg/murex/lang/expressions"
	"github.com/lmorg/murex/lang/types"
	"github.com/lmorg/murex/zzverif/rt"
)

type c08ctx struct {
	text string
	args int // number of arguments the text contributes
	// plain: the argument texts, when the statement fixes them
	plain []string
	// glued: the text does not end in a separator (an escaped blank belongs to the argument before
	// it). `@a` still starts its own arguments there; a `$v` would rightly continue the argument,
	// so the scalar harness leaves these out
	glued bool
}

var (
	c08before = []c08ctx{
		{"cmd ", 0, nil, false}, {"cmd x ", 1, []string{"x"}, false}, {"cmd %{a: 1} ", 1, nil, false}, {"cmd foo\\ ", 1, []string{"foo "}, true},
		{"cmd %[1 2] ", 1, nil, false}, {"cmd 'q' ", 1, []string{"q"}, false}, {"cmd \"q\" ", 1, []string{"q"}, false}, {"cmd (q) ", 1, []string{"q"}, false},
		{"cmd -f ", 1, []string{"-f"}, false}, {"cmd x\t", 1, []string{"x"}, false}, {"cmd x y ", 2, []string{"x", "y"}, false}, {"cmd %(q r) ", 1, []string{"q r"}, false},
		{"cmd \\  ", 1, []string{" "}, false}, {"cmd a=b ", 1, []string{"a=b"}, false}, {"cmd [x] ", 1, []string{"[x]"}, false},
	}
	c08after = []c08ctx{
		{"", 0, nil, false}, {" y", 1, []string{"y"}, false}, {"\n", 0, nil, false}, {" %{b: 2}", 1, nil, false}, {" 'q'", 1, []string{"q"}, false}, {"\t-x", 1, []string{"-x"}, false},
		{" \\ ", 1, []string{" "}, false}, {" # c", 0, nil, false},
	}
)

func c08pick(name string, pool []c08ctx, param string) c08ctx {
	k := rt.Param(param)
	if k > len(pool) {
		k = len(pool)
	}
	return pool[rt.Choice(name, k)]
}

// c08check: params = before's arguments, the variable's arguments, after's arguments.
func c08check(params []string, before, after c08ctx, varArgs int, varOK func(off int) bool) {
	want := before.args + varArgs + after.args
	rt.Assert(len(params) == want, "the variable did not give exactly its own arguments next to its neighbours' (argument count)")
	if len(params) != want {
		return
	}
	for i, p := range before.plain {
		rt.Assert(params[i] == p, "an argument before the variable changed")
	}
	rt.Assert(varOK(before.args), "the variable's value was not passed verbatim")
	for i, p := range after.plain {
		rt.Assert(params[before.args+varArgs+i] == p, "an argument after the variable changed")
	}
}

// VerifC08ScalarContext: `<before>$v<after>`.
func VerifC08ScalarContext() {
	l := rt.Choice("len", rt.Param("n")+1)
	v := asciiString("v", l, false)
	before, after := c08before[0], c08after[0]
	// vary one side at a time (the other side plain), plus both sides together for the first few
	switch rt.Choice("side", 3) {
	case 0:
		before = c08pick("before", c08before, "ctx")
	case 1:
		after = c08pick("after", c08after, "ctx")
	case 2:
		before, after = c08pick("before", c08before, "both"), c08pick("after", c08after, "both")
	}
	rt.Assume(!before.glued)
	fork := newScope()
	rt.Assert(fork.Variables.Set(fork.Process, "v", v, types.String) == nil, "could not set a string variable")
	cmd, params, err := expressions.StatementParametersParser([]rune(before.text+"$v"+after.text), fork.Process)
	rt.Reach("scalar-context-parsed")
	rt.Assert(err == nil, "statement with a $variable argument failed to parse/expand")
	rt.Assert(cmd == "cmd", "command name changed")
	c08check(params, before, after, 1, func(off int) bool { return verbatimScalar(params[off], v) })
}

// VerifC08ArrayContext: `<before>@a<after>` with a list of 1..k elements.
func VerifC08ArrayContext() {
	k := rt.Choice("elems", rt.Param("k")) + 1
	m := rt.Param("m")
	elems := make([]string, k)
	data := ""
	for i := 0; i < k; i++ {
		l := rt.Choice("len", m) + 1
		elems[i] = asciiString("e", l, true)
		rt.Assume(rt.Not(isSpace(elems[i][0])))
		rt.Assume(rt.Not(isSpace(elems[i][l-1])))
		if i > 0 {
			data += "\n"
		}
		data += elems[i]
	}
	before, after := c08before[0], c08after[0]
	switch rt.Choice("side", 3) {
	case 0:
		before = c08pick("before", c08before, "ctx")
	case 1:
		after = c08pick("after", c08after, "ctx")
	case 2:
		before, after = c08pick("before", c08before, "both"), c08pick("after", c08after, "both")
	}
	fork := newScope()
	rt.Assert(fork.Variables.Set(fork.Process, "a", data, types.String) == nil, "could not set a list variable")
	cmd, params, err := expressions.StatementParametersParser([]rune(before.text+"@a"+after.text), fork.Process)
	rt.Reach("array-context-parsed")
	rt.Assert(err == nil, "statement with an @array argument failed to parse/expand")
	rt.Assert(cmd == "cmd", "command name changed")
	c08check(params, before, after, k, func(off int) bool {
		ok := true
		for i := 0; i < k; i++ {
			ok = rt.And(ok, params[off+i] == elems[i])
		}
		return ok
	})
}
