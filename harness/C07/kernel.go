package expressions

// C07 - Logical operators inside expressions follow truthiness.
//
// Real code executed: types.IsTrueString / types.IsTrue / types.ConvertGoType(.., bool),
// (*ParserT).executeExpr -> expLogicalAnd, expLogicalOr, expElvis, expNullCoalescing.
//
// The reference truthiness is written from the statement: false iff the exit number is non-zero or
// the text, trimmed and lower-cased, is one of "", 0, null, false, no, off, fail, failed, disabled.

import (
	"errors"

	"github.com/lmorg/murex/lang/expressions/primitives"
	"github.com/lmorg/murex/lang/expressions/symbols"
	"github.com/lmorg/murex/lang/types"
	"github.com/lmorg/murex/zzverif/rt"
)

var verifC07falseWords = []string{"0", "null", "false", "no", "off", "fail", "failed", "disabled"}

func verifC07ws(c byte) bool {
	return rt.Or(rt.Or(c == ' ', c == '\t'), rt.Or(c == '\n', c == '\r'))
}

// verifC07isFalseText: s (concrete length, symbolic bytes) trimmed and lower-cased is empty or one
// of the false words. One term, no forking.
func verifC07isFalseText(s string) bool {
	n := len(s)
	// wsPrefix[i]: s[:i] is all whitespace; wsSuffix[i]: s[i:] is all whitespace
	wsPrefix := make([]bool, n+1)
	wsSuffix := make([]bool, n+1)
	wsPrefix[0] = true
	for i := 0; i < n; i++ {
		wsPrefix[i+1] = rt.And(wsPrefix[i], verifC07ws(s[i]))
	}
	wsSuffix[n] = true
	for i := n - 1; i >= 0; i-- {
		wsSuffix[i] = rt.And(wsSuffix[i+1], verifC07ws(s[i]))
	}
	isFalse := wsPrefix[n] // empty after trimming
	for _, w := range verifC07falseWords {
		for i := 0; i+len(w) <= n; i++ {
			m := rt.And(wsPrefix[i], wsSuffix[i+len(w)])
			for k := 0; k < len(w); k++ {
				c := s[i+k]
				if w[k] >= 'a' && w[k] <= 'z' {
					m = rt.And(m, c|0x20 == w[k])
				} else {
					m = rt.And(m, c == w[k])
				}
			}
			isFalse = rt.Or(isFalse, m)
		}
	}
	return isFalse
}

func verifC07truthy(s string, exit int) bool {
	return rt.And(exit == 0, rt.Not(verifC07isFalseText(s)))
}

// verifC07text: ASCII text of n bytes; vertical tab and form feed are left out (the statement says
// "trimmed" without saying whether these count as white space).
func verifC07text(name string, n int) string {
	b := rt.Bytes(name, n)
	for _, c := range b {
		rt.Assume(rt.And(c < 0x80, rt.And(c != 11, c != 12)))
	}
	return string(b)
}

// VerifC07Truthy: the truthiness table itself, for every text of 0..n bytes and every exit number.
func VerifC07Truthy() {
	n := rt.Choice("len", rt.Param("n")+1)
	s := verifC07text("s", n)
	exit := rt.IntRange("exit", 0, 255)
	want := verifC07truthy(s, exit)

	rt.Assert(types.IsTrueString(s, exit) == want, "IsTrueString differs from the truthiness table")
	rt.Assert(types.IsTrue([]byte(s), exit) == want, "IsTrue differs from the truthiness table")
	rt.Reach("table")

	v, err := types.ConvertGoType(s, types.Boolean)
	rt.Assert(err == nil, "string cannot be converted to bool")
	rt.Assert(v.(bool) == verifC07truthy(s, 0), "string -> bool conversion differs from the truthiness table")
	rt.Reach("convert")
}

// VerifC07FalseWords: every documented false word in any letter case, padded left and right with up
// to p white space characters each, is false.
func VerifC07FalseWords() {
	p := rt.Param("p")
	w := verifC07falseWords[rt.Choice("word", len(verifC07falseWords))]
	l, r := rt.Choice("pad-left", p+1), rt.Choice("pad-right", p+1)
	b := make([]byte, 0, l+len(w)+r)
	pad := func(k int) {
		for i := 0; i < k; i++ {
			c := rt.Byte("ws")
			rt.Assume(verifC07ws(c))
			b = append(b, c)
		}
	}
	pad(l)
	for i := 0; i < len(w); i++ {
		c := rt.Byte("letter")
		if w[i] >= 'a' && w[i] <= 'z' {
			rt.Assume(c|0x20 == w[i])
		} else {
			rt.Assume(c == w[i])
		}
		b = append(b, c)
	}
	pad(r)
	s := string(b)
	rt.Assert(rt.Not(types.IsTrueString(s, 0)), "a documented false word is truthy")
	rt.Assert(rt.Not(types.IsTrue(b, 0)), "a documented false word is truthy (IsTrue)")
	v, err := types.ConvertGoType(s, types.Boolean)
	rt.Assert(err == nil, "string cannot be converted to bool")
	rt.Assert(rt.Not(v.(bool)), "a documented false word converts to true")
	rt.Reach("false-word")
}

// ---- operands of the logical operators

const (
	verifC07kBool = iota
	verifC07kNull
	verifC07kString
	verifC07kNumber
	verifC07kSubShell  // result of ${...}: text + exit number
	verifC07kUndefined // a variable look-up that failed
	verifC07kinds
	// only offered where asked for explicitly (VerifC07Elvis): the value of an `int` / `bool`-less typed
	// variable - parseVarScalarExpr's closure hands the operators a Go int, not a float64
	verifC07kIntVar = verifC07kinds
)

var verifC07numbers = []float64{0, 1, -1, 0.5, 2}

type verifC07operand struct {
	kind   int
	node   *astNodeT
	truthy bool // reference truthiness (term)
	isNull bool // null or undefined
	b      bool
	s      string
	f      float64
	i      int
	exit   int
}

// verifC07concretePool: texts used where the operand must be concrete.
var verifC07pool = []string{"", "0", "false", " Off\n", "yes", "FAILED", "1", "null", "abc", "no",
	"disabled", "fail", "true", "00", "nope", "-", "failing", " "}

// verifC07mkOperand builds the AST node exactly as parseExpression + validateExpression leave it.
// symbolic=false: every value is enumerated (rt.Choice) instead of symbolic.
func verifC07mkOperand(name string, pos int, n int, symbolic bool, kinds int) *verifC07operand {
	o := &verifC07operand{kind: rt.Choice(name+"-kind", kinds)}
	text := func() string {
		if symbolic {
			return verifC07text(name+"-text", rt.Choice(name+"-len", n+1))
		}
		k := rt.Param("pool")
		if k < 1 || k > len(verifC07pool) {
			k = len(verifC07pool)
		}
		return verifC07pool[rt.Choice(name+"-text", k)]
	}
	switch o.kind {
	case verifC07kBool:
		if symbolic {
			o.b = rt.Bool(name + "-bool")
		} else {
			o.b = rt.Choice(name+"-bool", 2) == 1
		}
		o.truthy = o.b
		// parseExpression yields a Boolean node with the text true/false; validateExpression
		// turns it into NewPrimitive(Boolean, IsTrueString(text))
		o.node = &astNodeT{key: symbols.Boolean, pos: pos, dt: primitives.NewPrimitive(primitives.Boolean, o.b)}
	case verifC07kNull:
		o.isNull = true
		o.node = &astNodeT{key: symbols.Null, pos: pos, value: []rune("null")}
	case verifC07kString:
		o.s = text()
		o.truthy = verifC07truthy(o.s, 0)
		o.node = &astNodeT{key: symbols.QuoteSingle, pos: pos, dt: primitives.NewPrimitive(primitives.String, o.s)}
	case verifC07kNumber:
		o.f = verifC07numbers[rt.Choice(name+"-number", len(verifC07numbers))]
		o.truthy = o.f != 0
		o.node = &astNodeT{key: symbols.Number, pos: pos, dt: primitives.NewPrimitive(primitives.Number, o.f)}
	case verifC07kSubShell:
		o.s = text()
		var exit int
		if symbolic {
			exit = rt.IntRange(name+"-exit", 0, 255)
		} else {
			exit = []int{0, 1, 2, 255}[rt.Choice(name+"-exit", 4)]
		}
		o.exit = exit
		o.truthy = verifC07truthy(o.s, exit)
		s := o.s
		o.node = &astNodeT{key: symbols.Calculated, pos: pos, dt: primitives.NewFunction(
			func() (*primitives.Value, error) { // shape of execSubShellScalar's result
				return &primitives.Value{Value: s, DataType: types.String, ExitNum: exit}, nil
			})}
	case verifC07kIntVar:
		o.i = rt.IntRange(name+"-int", -1000, 1000)
		o.truthy = o.i != 0
		i := o.i
		o.node = &astNodeT{key: symbols.Scalar, pos: pos, dt: primitives.NewFunction(
			func() (*primitives.Value, error) { // shape of parseVarScalarExpr's closure for `set int v=...; $v`
				return &primitives.Value{Value: i, DataType: types.Integer}, nil
			})}
	case verifC07kUndefined:
		o.isNull = true
		o.node = &astNodeT{key: symbols.Scalar, pos: pos, dt: primitives.NewFunction(
			func() (*primitives.Value, error) { // shape of parseVarScalarExpr's closure on a failed look-up
				return &primitives.Value{Value: nil, DataType: ""}, errors.New("variable does not exist")
			})}
	}
	return o
}

// verifC07same: got is the value of operand o (one term).
func verifC07same(got any, o *verifC07operand) bool {
	switch o.kind {
	case verifC07kBool:
		v, ok := got.(bool)
		return ok && v == o.b
	case verifC07kNull:
		return got == nil
	case verifC07kString, verifC07kSubShell:
		v, ok := got.(string)
		return ok && v == o.s
	case verifC07kNumber:
		v, ok := got.(float64)
		return ok && v == o.f
	case verifC07kIntVar:
		v, ok := got.(int)
		return ok && v == o.i
	}
	return false
}

func verifC07run(a, b *verifC07operand, op symbols.Exp) (*primitives.Value, error) {
	tree := new(ParserT)
	tree._strictTypes = false
	tree.ast = []*astNodeT{a.node, {key: op, pos: 1}, b.node}
	dt, err := tree.executeExpr()
	if err != nil {
		return nil, err
	}
	return dt.GetValue()
}

// VerifC07AndOr: a && b, a || b. Operand values are enumerated from pools (see NOTES: on the pinned
// tree these operators serialise the whole operand with encoding/json, which needs concrete values).
func VerifC07AndOr() {
	a := verifC07mkOperand("a", 0, 0, false, verifC07kinds)
	b := verifC07mkOperand("b", 2, 0, false, verifC07kinds)
	isAnd := rt.Choice("operator", 2) == 0
	op := symbols.LogicalOr
	want := rt.Or(a.truthy, b.truthy)
	if isAnd {
		op = symbols.LogicalAnd
		want = rt.And(a.truthy, b.truthy)
	}
	rt.KnownFinding("C07-andor-always-true", rt.Not(want))

	val, err := verifC07run(a, b, op)
	rt.Assert(err == nil, "logical operator rejected its operands")
	got, ok := val.Value.(bool)
	rt.Assert(ok, "logical operator does not yield a boolean")
	rt.Reach("evaluated")
	if isAnd {
		rt.Assert(got == want, "a && b is not (a truthy and b truthy)")
	} else {
		rt.Assert(got == want, "a || b is not (a truthy or b truthy)")
	}
}

// VerifC07Elvis: a ?: b and a ?? b, text operands symbolic (0..n bytes), exit numbers symbolic.
func VerifC07Elvis() {
	n := rt.Param("n")
	a := verifC07mkOperand("a", 0, n, true, verifC07kinds+1)    // incl. the value of an int variable
	b := verifC07mkOperand("b", 2, n, true, verifC07kUndefined) // b: any defined operand
	isElvis := rt.Choice("operator", 2) == 0
	op := symbols.NullCoalescing
	if isElvis {
		op = symbols.Elvis
	}
	if isElvis && a.kind == verifC07kSubShell {
		// finding: ?: looks at the text of a sub-shell operand only, not at its exit number
		rt.KnownFinding("C07-elvis-ignores-exit", rt.And(a.exit != 0, rt.Not(verifC07isFalseText(a.s))))
	}
	val, err := verifC07run(a, b, op)
	rt.Assert(err == nil, "operator rejected its operands")
	rt.Reach("evaluated")
	isA, isB := verifC07same(val.Value, a), verifC07same(val.Value, b)
	if isElvis {
		// a sub-shell operand whose exit number is non-zero is falsy by the statement
		rt.Assert(rt.Or(rt.And(a.truthy, isA), rt.And(rt.Not(a.truthy), isB)),
			"a ?: b does not yield a when a is truthy and b otherwise")
		return
	}
	if a.isNull {
		rt.Assert(isB, "a ?? b does not yield b although a is null/undefined")
	} else {
		rt.Assert(isA, "a ?? b does not yield a although a is neither null nor undefined")
	}
}
