package lang

// C28 - function IDs are unique and released when programs finish (kernel part).
//
// VerifC28Register: real funcID.Register / Deregister / ListAll / Proc on a table in an
// arbitrary state: the counter `latest` is any uint32, the table holds m live processes
// whose FIDs are any distinct earlier-issued values (1..latest). k further registrations
// (interleaved with symbolic deregistrations) must hand out FIDs that differ from each
// other and from every FID that is or was in the table.
//
// VerifC28SchedNormal/Try/TryPipe: release obligation of the three schedulers on the real
// GlobalFIDs table: when the scheduler has returned and the session is quiet, every
// process of the block is gone from the table. executeProcess is replaced by its contract
// (as in C04/C05) including its teardown: destroyProcess -> deregisterProcess is the REAL code.

import (
	"github.com/lmorg/murex/builtins/pipes/streams"
	"github.com/lmorg/murex/zzverif/rt"
)

func VerifC28Register() {
	m := rt.Param("m") // live processes in the table beforehand
	k := rt.Param("k") // registrations made
	f := newFuncID()
	latest := rt.Uint32("latest")
	// outside the claim: the counter wraps around after 2^32-1 registrations in one session
	nowrap := uint64(latest)+uint64(k) <= 0xffffffff
	f.latest = latest

	var had []uint32 // every FID any process has had so far
	for j := 0; j < m; j++ {
		id := rt.Uint32("old")
		rt.Assume(rt.And(id >= 1, id <= latest)) // issued earlier by this counter
		for _, o := range had {
			rt.Assume(id != o)
		}
		p := &Process{Variables: new(Variables)}
		p.Id = id
		f.list[id] = p
		had = append(had, id)
	}

	var mine []*Process
	for j := 0; j < k; j++ {
		p := &Process{Variables: new(Variables)}
		fid := f.Register(p)
		rt.Reach("registered")
		if !nowrap {
			// witness only: after 2^32 registrations FIDs repeat (outside the claim)
			if fid == 0 {
				rt.Reach("wraparound-fid0")
			}
			for _, o := range had {
				if fid == o {
					rt.Reach("wraparound-collision")
				}
			}
			had = append(had, fid)
			continue
		}
		rt.Assert(p.Id == fid, "Register returned a FID other than the one stored in the process")
		rt.Assert(fid != 0, "FID 0 (reserved for the shell) handed to a process")
		for _, o := range had {
			rt.Assert(fid != o, "a process got a FID another process of the session has or had")
		}
		had = append(had, fid)
		mine = append(mine, p)
		got, err := f.Proc(fid)
		rt.Assert(err == nil && got == p, "a registered process is not found under its FID")
		// optionally release an earlier process of ours (finished programs free their slots;
		// the freed FID must still never be handed out again)
		if len(mine) > 0 && rt.Bool("release") {
			v := mine[0]
			mine = mine[1:]
			f.Deregister(v.Id)
			_, err := f.Proc(v.Id)
			rt.Assert(err != nil, "a deregistered process is still in the table")
		}
	}
	// the table holds exactly the old processes and those of ours not released
	if !nowrap {
		return
	}
	rt.Assert(len(f.ListAll()) == m+len(mine), "FID table size differs from the number of live processes")
}

type verifC28cmd struct {
	and, or, pipe bool
	exit          int
}

func verifC28sched(mode int) {
	n := rt.Param("n")
	cmds := make([]verifC28cmd, n)
	procs := make([]Process, n)
	parent := new(Process)
	before := len(GlobalFIDs.ListAll())
	ids := make([]uint32, n)
	for i := 0; i < n; i++ {
		c := &cmds[i]
		if i > 0 {
			c.and, c.or, c.pipe = rt.Bool("and"), rt.Bool("or"), rt.Bool("pipe")
			rt.Assume(rt.Not(rt.And(c.and, c.or)))
			rt.Assume(rt.Not(rt.And(c.pipe, rt.Or(c.and, c.or))))
		}
		c.exit = rt.IntRange("exit", 0, 255)
		p := &procs[i]
		p.OperatorLogicAnd, p.OperatorLogicOr, p.IsMethod = c.and, c.or, c.pipe
		p.WaitForTermination = make(chan bool)
		p.Parent = parent
		p.Next = parent
		p.Done = func() {}
		p.Name.Set("verifc28")
		so, se := streams.NewStdin(), streams.NewStdin()
		so.Open()
		se.Open()
		p.Stdout, p.Stderr = so, se
		p.Variables = new(Variables)
		ids[i] = GlobalFIDs.Register(p)
		for j := 0; j < i; j++ {
			rt.Assert(ids[i] != ids[j], "two processes of one block share a FID")
		}
	}
	index := func(p *Process) int {
		for i := range procs {
			if &procs[i] == p {
				return i
			}
		}
		panic("unknown process")
	}
	rt.Stub("github.com/lmorg/murex/lang.executeProcess", func(p *Process) {
		i := index(p)
		if !p.HasTerminated() {
			p.ExitNum = cmds[i].exit
		}
		destroyProcess(p) // real teardown: signals WaitForTermination, closes streams, deregisters asynchronously
	})
	switch mode {
	case 0:
		runModeNormal(&procs)
	case 1:
		runModeTry(&procs, false)
	case 2:
		runModeTryPipe(&procs, false)
	}
	rt.Reach("scheduler-returned")
	rt.WaitIdle() // "the session is quiet"
	for i := 0; i < n; i++ {
		_, err := GlobalFIDs.Proc(ids[i])
		rt.Assert(err != nil, "a process of a finished block is still in the FID table")
	}
	rt.Assert(len(GlobalFIDs.ListAll()) == before, "the FID table did not return to its size before the block")
}

func VerifC28SchedNormal()  { verifC28sched(0) }
func VerifC28SchedTry()     { verifC28sched(1) }
func VerifC28SchedTryPipe() { verifC28sched(2) }
