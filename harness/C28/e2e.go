// Package c28: C28 end to end - generated programs run through the whole interpreter
// (mx.Run -> Fork.Execute -> parser, compile, schedulers, real executeProcess / destroyProcess /
// deregisterProcess); afterwards, with the session quiet, the real FID table
// (lang.GlobalFIDs.ListAll(), what `fid-list` prints) is inspected, and the FIDs seen by the
// commands while they ran are compared.
package c28

import (
	"fmt"
	"strings"
	"sync"
	"time"

	"github.com/lmorg/murex/lang"
	"github.com/lmorg/murex/lang/types"
	"github.com/lmorg/murex/zzverif/mx"
	"github.com/lmorg/murex/zzverif/rt"
)

var (
	mu      sync.Mutex
	seen    []uint32 // FID of every harness command that ran (in this path)
	exitNum [3]int
)

func define() {
	for i := 0; i < 3; i++ {
		i := i
		lang.DefineMethod(fmt.Sprintf("v28%c", 'a'+i), func(p *lang.Process) error {
			mu.Lock()
			seen = append(seen, p.Id)
			mu.Unlock()
			p.Stdout.SetDataType(types.String)
			p.Stdout.Write([]byte{byte('a' + i)})
			p.ExitNum = exitNum[i]
			return nil
		}, types.Any, types.String)
	}
}

func table() map[uint32]bool {
	m := map[uint32]bool{}
	for _, p := range lang.GlobalFIDs.ListAll() {
		m[p.Id] = true
	}
	return m
}

// quiet: "the program has finished and the session is quiet". Under symgo every other
// goroutine has run to completion or blocks; natively give the asynchronous deregistration
// goroutines up to 2 s.
func quiet(baseline map[uint32]bool) {
	if rt.Symbolic() {
		rt.WaitIdle()
		return
	}
	if baseline == nil {
		time.Sleep(20 * time.Millisecond)
		return
	}
	for t := 0; t < 2000; t++ {
		extra := false
		for id := range table() {
			if !baseline[id] {
				extra = true
			}
		}
		if !extra {
			return
		}
		time.Sleep(time.Millisecond)
	}
}

// programs: pipelines, functions, nested blocks, try blocks, early break / return.
// v28a, v28b, v28c are harness commands with symbolic exit numbers.
var programs = []string{
	/* 0 */ "v28a | v28b | v28c",
	/* 1 */ "v28a && v28b || v28c ; v28a",
	/* 2 */ "try { v28a ; v28b || v28c ; v28a }",
	/* 3 */ "trypipe { v28a | v28b | v28c ; v28a }",
	/* 4 */ "try { v28a | v28b ; v28c }",
	/* 5 */ "if { v28a } then { v28b } else { v28c }",
	/* 6 */ "function v28f { v28a ; v28b }\nv28f ; v28f | v28c",
	/* 7 */ "function v28g { v28a ; if { v28b } then { return 3 } ; v28c }\nv28g ; v28a",
	/* 8 */ "a [1..3] -> foreach i { v28a ; if { v28b } then { break foreach } ; v28c }",
	/* 9 */ "a [1..3] -> foreach i { if { v28a } then { continue foreach } ; v28b }",
	/* 10 */ "function v28h (n: int) { v28a }\nv28h 1 ; v28h 2 | v28b",
	/* 11 */ "private v28p { v28a | v28b }\nv28p ; v28c",
	/* 12 */ "v28a -> v28b ; out ${ v28c }",
	/* 13 */ "try { v28a ; try { v28b ; v28c } ; v28a }",
	/* 14 */ "!if { v28a } then { v28b ; v28c }",
	/* 15 */ "function v28r { try { v28a ; v28b } ; v28c }\nv28r",
	/* 16 */ "function v28f { v28a }\nfexec function v28f",
	/* 17 */ "$i=0; while { $i<2 } { $i=$i+1; v28a }",
	/* 18 */ "for { $i=0; $i<2; $i++ } { v28a }",
	/* 19 */ "switch { case { v28a } then { v28b }; default { v28c } }",
	/* 20 */ "%{a: 1, b: 2} -> formap k v { v28a }",
	/* 21 */ "a [1..3] -> foreach --step 2 i { v28a }",
	/* 22 */ "out ${ v28a } @{ v28b }",
	/* 23 */ "v28a -> if { v28b }",
	/* 24 */ "v28a ? v28b",
	/* 25 */ "unsafe { v28a ; v28b }",
	/* 26 */ "tryerr { v28a ; v28b }",
	/* 27 */ "v28a -> catch { v28b }",
	/* 28 */ "try { v28a || v28b | v28c }",
	/* 29 */ "v28a && v28b | v28c",
	/* 30 */ "return 3 ; v28a",
	/* 31 */ "function v28k { break nosuchblock ; v28a }\nv28k ; v28b",
	/* 32 */ "trypipe { v28b -> foreach i { break v28zz } }",
	/* 33 */ "function v28s { v28a -> v28b }\nv28s | v28c",
	/* 34 */ "%[1 2] -> foreach i { %[1 2] -> foreach j { v28a ; break foreach } }",
	/* 35 */ "a [1..3] -> foreach --parallel 2 i { v28a }",
	// structured variables and sub-shell results read as values (forks that are created for the
	// conversion and released without ever being executed)
	/* 36 */ "v = %{a: 1}; w = $v; v28a",
	/* 37 */ "v = %[1 2]; out %[$v]; v28a",
	/* 38 */ "v = %{a: 1}; v <~ %{b: 2}; v28a",
	/* 39 */ "w = ${ tout json '{\"a\":1}' }; v28a",
	/* 40 */ "v = %[1 2]; out @v $v[0]; v28a",
	/* 41 */ "function v28j { v = %{a: 1}; out $v }\nv28j -> v28a",
	/* 42 */ "try { v = %{a: 1}; w = $v; v28a; v28b }",
	/* 43 */ "v = %{a: 1}; out \"$v\" ($v) $v.a; v28a",
	// functions whose body fails to parse when it is called (a dangling pipe / logic token)
	/* 44 */ "function v28bad { v28a | }\nv28bad ; v28b",
	/* 45 */ "function v28bad2 { v28a && }\nv28bad2 | v28c ; v28bad2",
}

func check(block string, runs int) {
	define()
	mx.Init()
	quiet(nil)
	baseline := table()
	mu.Lock()
	seen = nil
	mu.Unlock()
	for r := 0; r < runs; r++ {
		_, _, _, err := mx.Run(block)
		rt.Assert(err == nil, "program does not compile: "+block)
		quiet(baseline)
		rt.Reach("program-finished")
		for id := range table() {
			rt.Assert(baseline[id], "`"+block+"`: a process of the finished program is still in the FID table")
		}
	}
	mu.Lock()
	defer mu.Unlock()
	if len(seen) > 0 {
		rt.Reach("commands-ran")
	}
	for i := range seen {
		rt.Assert(!baseline[seen[i]], "`"+block+"`: a command got the FID of a process that was already in the table")
		for j := 0; j < i; j++ {
			rt.Assert(seen[i] != seen[j], "`"+block+"`: two processes of the session got the same FID")
		}
	}
}

// VerifC28Programs: each program of the pool, every combination of zero / non-zero exit
// numbers of its three commands (symbolic 0..255), run twice in the same session.
func VerifC28Programs() {
	for i := range exitNum {
		exitNum[i] = rt.IntRange("exit", 0, 255)
	}
	prog := rt.Choice("prog", len(programs))
	check(programs[prog], rt.Param("runs"))
	rt.Reach(fmt.Sprintf("prog-%d-done", prog))
}

// VerifC28Concurrent: two programs of the pool started from two goroutines in the same session
// (the engine interleaves them at blocking points, deterministically: one schedule per pair).
var concurrentPool = []int{0, 2, 3, 6, 7, 8, 11, 13}

func VerifC28Concurrent() {
	for i := range exitNum {
		exitNum[i] = rt.IntRange("exit", 0, 255)
	}
	a := programs[concurrentPool[rt.Choice("prog-a", len(concurrentPool))]]
	b := programs[concurrentPool[rt.Choice("prog-b", len(concurrentPool))]]
	define()
	mx.Init()
	quiet(nil)
	baseline := table()
	mu.Lock()
	seen = nil
	mu.Unlock()
	done := make(chan error, 2)
	for _, prog := range []string{a, b} {
		prog := prog
		go func() {
			_, _, _, err := mx.Run(prog)
			done <- err
		}()
	}
	for i := 0; i < 2; i++ {
		rt.Assert(<-done == nil, "program does not compile")
	}
	quiet(baseline)
	rt.Reach("both-finished")
	for id := range table() {
		rt.Assert(baseline[id], "`"+a+"` || `"+b+"`: a process of the finished programs is still in the FID table")
	}
	mu.Lock()
	defer mu.Unlock()
	for i := range seen {
		rt.Assert(!baseline[seen[i]], "a command got the FID of a process that was already in the table")
		for j := 0; j < i; j++ {
			rt.Assert(seen[i] != seen[j], "`"+a+"` || `"+b+"`: two processes of the session got the same FID")
		}
	}
}

// VerifC28Findings: the programs that leave a process behind (kept apart from the pool so that the pool runs clean).
var findings = []struct{ id, good, bad string }{
	{"C28-cast-failure-leaks-fid", "function v28h (n: int) { v28a }\nv28h 7 ; v28b", "function v28h (n: int) { v28a }\nv28h notanumber ; v28b"},
	{"C28-fexec-builtin-leaks-fid", "function v28f { v28a }\nfexec function v28f ; v28b", "fexec builtin v28a ; v28b"},
}

func VerifC28Findings() {
	for i := range exitNum {
		exitNum[i] = rt.IntRange("exit", 0, 255)
	}
	which := rt.Choice("program", len(findings))
	bad := rt.Bool("bad-variant")
	for i := range findings {
		rt.KnownFinding(findings[i].id, rt.And(bad, which == i))
	}
	prog := findings[which].good
	if bad {
		prog = findings[which].bad
	}
	check(prog, rt.Param("runs"))
}

// Replay drivers of the kernel scheduler harnesses (VerifC28SchedNormal/Try/TryPipe): the same
// inputs in the same order, the block run through the public API.
func replaySched(wrapper string) {
	n := rt.Param("n")
	var sb strings.Builder
	exits := make([]int, n)
	for i := 0; i < n; i++ {
		var and, or, pipe bool
		if i > 0 {
			and, or, pipe = rt.Bool("and"), rt.Bool("or"), rt.Bool("pipe")
			rt.Assume(!(and && or))
			rt.Assume(!(pipe && (and || or)))
		}
		exits[i] = rt.IntRange("exit", 0, 255)
		i := i
		name := fmt.Sprintf("v28s%d", i)
		lang.DefineMethod(name, func(p *lang.Process) error {
			mu.Lock()
			seen = append(seen, p.Id)
			mu.Unlock()
			p.ExitNum = exits[i]
			return nil
		}, types.Any, types.Null)
		switch {
		case i == 0:
		case and:
			sb.WriteString(" && ")
		case or:
			sb.WriteString(" || ")
		case pipe:
			sb.WriteString(" | ")
		default:
			sb.WriteString(" ; ")
		}
		sb.WriteString(name)
	}
	block := sb.String()
	if wrapper != "" {
		block = wrapper + " { " + block + " }"
	}
	check(block, 1)
}

func VerifC28ReplayNormal()  { replaySched("") }
func VerifC28ReplayTry()     { replaySched("try") }
func VerifC28ReplayTryPipe() { replaySched("trypipe") }
