// Package c28: C28 end to end - generated programs run through the whole interpreter
// (mx.Run -> Fork.Execute -> parser, compile, schedulers, real executeProcess / destroyProcess /
// deregisterProcess); afterwards, with the session quiet, the real FID table
// (lang.GlobalFIDs.ListAll(), what `fid-list` prints) is inspected, and the FIDs seen by the
// commands while they ran are compared.
package c28

import (
	"fmt"
	"strings"
	"sync"
	"time"

	"github.com/lmorg/murex/lang"
	"github.com/lmorg/murex/lang/types"
	"github.com/lmorg/murex/zzverif/mx"
	"github.com/lmorg/murex/zzverif/rt"
)

var (
	mu      sync.Mutex
	seen    []uint32 // FID of every harness command that ran (in this path)
	exitNum [3]int
)

func define() {
	for i := 0; i < 3; i++ {
		i := i
		lang.DefineMethod(fmt.Sprintf("v28%c", 'a'+i), func(p *lang.Process) error {
			mu.Lock()
			seen = append(seen, p.Id)
			mu.Unlock()
			p.Stdout.SetDataType(types.String)
			p.Stdout.Write([]byte{byte('a' + i)})
			p.ExitNum = exitNum[i]
			return nil
		}, types.Any, types.String)
	}
}

func table() map[uint32]bool {
	m := map[uint32]bool{}
	for _, p := range lang.GlobalFIDs.ListAll() {
		m[p.Id] = true
	}
	return m
}

// quiet: "the program has finished and the session is quiet". Under symgo every other
// goroutine has run to completion or blocks; natively give the asynchronous deregistration
// goroutines up to 2 s.
func quiet(baseline map[uint32]bool) {
	if rt.Symbolic() {
		rt.WaitIdle()
		return
	}
	if baseline == nil {
		time.Sleep(20 * time.Millisecond)
		return
	}
	for t := 0; t < 2000; t++ {
		extra := false
		for id := range table() {
			if !baseline[id] {
				extra = true
			}
		}
		if !extra {
			return
		}
		time.Sleep(time.Millisecond)
	}
}

// programs: pipelines, functions, nested blocks, try blocks, early break / return.
// v28a, v28b, v28c are harness commands with symbolic exit numbers.
var programs = []string{
	/* 0 */ "v28a | v28b | v28c",
	/* 1 */ "v28a && v28b || v28c ; v28a",
	/* 2 */ "try { v28a ; v28b || v28c ; v28a }",
	/* 3 */ "trypipe { v28a | v28b | v28c ; v28a }",
	/* 4 */ "try { v28a | v28b ; v28c }",
	/* 5 */ "if { v28a } then { v28b } else { v28c }",
	/* 6 */ "function v28f { v28a ; v28b }\nv28f ; v28f | v28c",
	/* 7 */ "function v28g { v28a ; if { v28b } then { return 3 } ; v28c }\nv28g ; v28a",
	/* 8 */ "a [1..3] -> foreach i { v28a ; if { v28b } then { break foreach } ; v28c }",
	/* 9 */ "a [1..3] -> foreach i { if { v28a } then { continue foreach } ; v28b }",
	/* 10 */ "function v28h (n: int) { v28a }\nv28h 1 ; v28h 2 | v28b",
	/* 11 */ "private v28p { v28a | v28b }\nv28p ; v28c",
	/* 12 */ "v28a -> v28b ; out ${ v28c }",
	/* 13 */ "try { v28a ; try { v28b ; v28c } ; v28a }",
	/* 14 */ "!if { v28a } then { v28b ; v28c }",
	/* 15 */ "function v28r { try { v28a ; v28b } ; v28c }\nv28r",
}

func check(block string, runs int) {
	define()
	mx.Init()
	quiet(nil)
	baseline := table()
	mu.Lock()
	seen = nil
	mu.Unlock()
	for r := 0; r < runs; r++ {
		_, _, _, err := mx.Run(block)
		rt.Assert(err == nil, "program does not compile: "+block)
		quiet(baseline)
		rt.Reach("program-finished")
		for id := range table() {
			rt.Assert(baseline[id], "`"+block+"`: a process of the finished program is still in the FID table")
		}
	}
	mu.Lock()
	defer mu.Unlock()
	if len(seen) > 0 {
		rt.Reach("commands-ran")
	}
	for i := range seen {
		rt.Assert(!baseline[seen[i]], "`"+block+"`: a command got the FID of a process that was already in the table")
		for j := 0; j < i; j++ {
			rt.Assert(seen[i] != seen[j], "`"+block+"`: two processes of the session got the same FID")
		}
	}
}

// VerifC28Programs: each program of the pool, every combination of zero / non-zero exit
// numbers of its three commands (symbolic 0..255), run twice in the same session.
func VerifC28Programs() {
	for i := range exitNum {
		exitNum[i] = rt.IntRange("exit", 0, 255)
	}
	prog := rt.Choice("prog", len(programs))
	check(programs[prog], rt.Param("runs"))
	rt.Reach(fmt.Sprintf("prog-%d-done", prog))
}

// VerifC28CastFailure: a function with a typed parameter called with a good or a bad argument.
func VerifC28CastFailure() {
	for i := range exitNum {
		exitNum[i] = rt.IntRange("exit", 0, 255)
	}
	bad := rt.Bool("bad-argument")
	rt.KnownFinding("C28-cast-failure-leaks-fid", bad)
	arg := "7"
	if bad {
		arg = "notanumber"
	}
	check("function v28h (n: int) { v28a }\nv28h "+arg+" ; v28b", rt.Param("runs"))
}

// Replay drivers of the kernel scheduler harnesses (VerifC28SchedNormal/Try/TryPipe): the same
// inputs in the same order, the block run through the public API.
func replaySched(wrapper string) {
	n := rt.Param("n")
	var sb strings.Builder
	exits := make([]int, n)
	for i := 0; i < n; i++ {
		var and, or, pipe bool
		if i > 0 {
			and, or, pipe = rt.Bool("and"), rt.Bool("or"), rt.Bool("pipe")
			rt.Assume(!(and && or))
			rt.Assume(!(pipe && (and || or)))
		}
		exits[i] = rt.IntRange("exit", 0, 255)
		i := i
		name := fmt.Sprintf("v28s%d", i)
		lang.DefineMethod(name, func(p *lang.Process) error {
			mu.Lock()
			seen = append(seen, p.Id)
			mu.Unlock()
			p.ExitNum = exits[i]
			return nil
		}, types.Any, types.Null)
		switch {
		case i == 0:
		case and:
			sb.WriteString(" && ")
		case or:
			sb.WriteString(" || ")
		case pipe:
			sb.WriteString(" | ")
		default:
			sb.WriteString(" ; ")
		}
		sb.WriteString(name)
	}
	block := sb.String()
	if wrapper != "" {
		block = wrapper + " { " + block + " }"
	}
	check(block, 1)
}

func VerifC28ReplayNormal()  { replaySched("") }
func VerifC28ReplayTry()     { replaySched("try") }
func VerifC28ReplayTryPipe() { replaySched("trypipe") }
