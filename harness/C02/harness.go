package streams

// C02 - A pipe's data type is set once and never changes.
// Real code executed: NewStdin, (*Stdin).SetDataType/GetDataType/Open/Close/ForceClose.

import (
	"sync"

	"github.com/lmorg/murex/zzverif/rt"
)

// verifC02effective: the statement's "non-empty, non-null" declaration.
func verifC02effective(t string) bool {
	return rt.And(len(t) != 0, t != "null")
}

// verifC02type draws an arbitrary type name of 0..n bytes (so "" and "null" are included
// when n >= 4).
func verifC02type(n int) string {
	k := rt.Choice("tlen", n+1)
	return rt.String("type", k)
}

// VerifC02History: a history of `ops` operations by one goroutine: SetDataType(arbitrary
// name of 0..t bytes), GetDataType, Open, Close, ForceClose. GetDataType is only issued
// where it does not have to wait (a type is declared, or no writer is open, or the reader
// force-closed the pipe).
func VerifC02History() {
	ops, tmax := rt.Param("ops"), rt.Param("t")
	s := NewStdin()
	decl := "" // first effective declaration so far
	declared := false
	deps := 0
	forced := false

	for i := 0; i < ops; i++ {
		switch rt.Choice("op", 5) {
		case 0:
			s.Open()
			deps++
		case 1:
			rt.Assume(deps > 0)
			s.Close()
			deps--
		case 2:
			t := verifC02type(tmax)
			s.SetDataType(t)
			if !declared {
				if verifC02effective(t) {
					declared, decl = true, t
					rt.Reach("first-declaration")
				} else {
					rt.Reach("ignored-declaration")
				}
			} else {
				rt.Reach("later-declaration")
			}
		case 3:
			rt.Assume(declared || deps < 1 || forced)
			dt := s.GetDataType()
			if declared {
				rt.Assert(dt == decl, "GetDataType is not the first non-empty, non-null type declared")
				rt.Reach("get-declared")
			} else if deps < 1 {
				rt.Assert(dt == "*", "GetDataType of a pipe whose writers closed without declaring a type is not `*`")
				rt.Reach("get-generic")
			} else {
				// reader gave up waiting (ForceClose): the statement is silent on the value
				rt.Assert(dt != "" && dt != "null", "GetDataType returned an empty/null type")
				rt.Reach("get-forced")
			}
		case 4:
			s.ForceClose()
			forced = true
		}
	}
	// final observation: all writers close, the type is what was first declared, else `*`
	for deps > 0 {
		s.Close()
		deps--
	}
	dt := s.GetDataType()
	if declared {
		rt.Assert(dt == decl, "final GetDataType is not the first non-empty, non-null type declared")
	} else {
		rt.Assert(dt == "*", "final GetDataType without any declaration is not `*`")
	}
	rt.Reach("final-get")
}

var verifC02zero sync.WaitGroup

// verifC02schedule: see harness/C01 - every mutex acquisition is preceded by an exhaustively
// explored decision which runnable goroutine continues.
func verifC02schedule() {
	rt.Stub("(*sync.Mutex).Lock", func(m *sync.Mutex) {
		rt.SymSched(true)
		verifC02zero.Wait()
		rt.SymSched(false)
		for !m.TryLock() {
			rt.Yield()
		}
	})
}

var verifC02pool = []string{"", "null", "a", "b"}

// VerifC02Threads: `setters` writer goroutines (opened before they start; each declares
// `decls` types drawn from {"", "null", "a", "b"} and then closes) and `getters` reader
// goroutines (each calls GetDataType `gets` times), all interleavings of the mutex critical
// sections. Ghost clock: a logical time stamp before and after every call, so "d completed
// before e started" is known without looking inside the pipe.
func VerifC02Threads() {
	ns, nd, ng, gets := rt.Param("setters"), rt.Param("decls"), rt.Param("getters"), rt.Param("gets")
	s := NewStdin()

	type call struct {
		t          string
		start, end int
	}
	var (
		wg      sync.WaitGroup
		tick    int
		decls   []*call
		results []*call
		anyEff  bool
	)
	types := make([][]string, ns)
	for k := 0; k < ns; k++ {
		for j := 0; j < nd; j++ {
			t := verifC02pool[rt.Choice("type", len(verifC02pool))]
			types[k] = append(types[k], t)
			if t != "" && t != "null" {
				anyEff = true
			}
		}
		s.Open()
	}
	verifC02schedule()
	for k := 0; k < ns; k++ {
		k := k
		wg.Add(1)
		go func() {
			defer wg.Done()
			for _, t := range types[k] {
				c := &call{t: t, start: tick}
				tick++
				decls = append(decls, c)
				c.end = 1 << 30
				s.SetDataType(t)
				c.end = tick
				tick++
			}
			s.Close()
		}()
	}
	for g := 0; g < ng; g++ {
		wg.Add(1)
		go func() {
			defer wg.Done()
			for j := 0; j < gets; j++ {
				c := &call{start: tick}
				tick++
				c.t = s.GetDataType()
				c.end = tick
				tick++
				results = append(results, c)
			}
		}()
	}
	wg.Wait()
	rt.Reach("all-threads-finished")

	var first string
	for _, r := range results {
		rt.Assert(r.t != "" && r.t != "null", "GetDataType returned an empty/null type instead of waiting")
		if anyEff {
			// every writer declares before it closes, so "all writers closed without a
			// declaration" never holds
			rt.Assert(r.t != "*", "GetDataType returned `*` although the writers declare a type before closing")
		} else {
			rt.Assert(r.t == "*", "GetDataType returned a type nobody declared")
			continue
		}
		if first == "" {
			first = r.t
		}
		rt.Assert(r.t == first, "two GetDataType calls returned different types: the pipe's type changed")
		// r.t must be the type of an effective declaration d that is "first": no other
		// effective declaration had completed before d started
		ok := false
		for _, d := range decls {
			if d.t != r.t || d.start > r.end {
				continue
			}
			isFirst := true
			for _, e := range decls {
				if e != d && e.t != "" && e.t != "null" && e.end < d.start {
					isFirst = false
				}
			}
			if isFirst {
				ok = true
			}
		}
		rt.Assert(ok, "GetDataType returned a type that is not the first effective declaration")
	}
	if anyEff {
		rt.Reach("declared")
	} else {
		rt.Reach("undeclared")
	}
}
