// Package c22: C22 - commands resolve in precedence order; aliases expand once.
//
// Two names A (`v22a`, the one called) and B (`v22b`, a possible alias target) are each
// defined - or not - as private function (same or another module), alias (naming itself, the
// other name, or a plain builtin), murex function and builtin, through murex's own `private`,
// `alias`, `function` commands (lang.PrivateFunctions.Define for the other-module private,
// lang.DefineFunction for builtins). Then `v22a arg` is run in a function scope of module
// murex/verif-replay through the whole interpreter (mx.Run -> ... -> the real executeProcess
// resolution switch). Every definition reports its kind, its name and the parameters it
// received to a recording builtin; the final fallback, the `exec` builtin, is replaced by a
// recorder too (no real processes in the sandbox), which is exactly the interface
// executeProcess hands external commands to.
package c22

import (
	"strings"
	"sync"

	"github.com/lmorg/murex/lang"
	"github.com/lmorg/murex/lang/ref"
	"github.com/lmorg/murex/lang/types"
	"github.com/lmorg/murex/zzverif/mx"
	"github.com/lmorg/murex/zzverif/rt"
)

const (
	nameA  = "v22a"
	nameB  = "v22b"
	plain  = "v22plain" // a builtin that is nothing else
	module = "murex/verif-replay"
)

// alias targets
const (
	aNone = iota
	aSelf
	aOther
	aPlain
	nAlias
)

// private
const (
	pNone = iota
	pSame
	pOther // defined in another module only: must not be seen
	nPriv
)

type def struct {
	name     string
	other    string
	priv     int
	alias    int
	function bool
	builtin  bool
}

var (
	mu  sync.Mutex
	log []string // one entry per definition that ran: "kind name params..."
)

func record(kind, name string, params []string) {
	mu.Lock()
	log = append(log, strings.TrimSpace(kind+" "+name+" "+strings.Join(params, " ")))
	mu.Unlock()
}

func (d *def) target() string {
	switch d.alias {
	case aSelf:
		return d.name
	case aOther:
		return d.other
	}
	return plain
}

// program text that creates the definitions of d (in the module of mx.Run)
func (d *def) define(sb *strings.Builder) {
	if d.priv == pSame {
		sb.WriteString("private " + d.name + " { v22rec private " + d.name + " @PARAMS }\n")
	}
	if d.alias != aNone {
		sb.WriteString("alias " + d.name + " = " + d.target() + " from-alias-" + d.name + "\n")
	}
	if d.function {
		sb.WriteString("function " + d.name + " { v22rec function " + d.name + " @PARAMS }\n")
	}
}

func clean(names ...string) {
	for _, n := range names {
		lang.GlobalAliases.Delete(n)
		lang.MxFunctions.Undefine(n)
		lang.PrivateFunctions.Undefine(n, &ref.File{Source: &ref.Source{Module: module}})
		lang.PrivateFunctions.Undefine(n, &ref.File{Source: &ref.Source{Module: "murex/verif-other"}})
		delete(lang.GoFunctions, n)
	}
}

// resolve is the rule of the statement: first match among private (caller's module), alias
// (expanded exactly once), function, builtin, external.
func resolve(defs map[string]*def, name string, params []string, aliasDone bool) string {
	d := defs[name]
	if d == nil {
		// the plain builtin
		return strings.TrimSpace("builtin " + name + " " + strings.Join(params, " "))
	}
	switch {
	case d.priv == pSame:
		return strings.TrimSpace("private " + name + " " + strings.Join(params, " "))
	case d.alias != aNone && !aliasDone:
		return resolve(defs, d.target(), append([]string{"from-alias-" + name}, params...), true)
	case d.function:
		return strings.TrimSpace("function " + name + " " + strings.Join(params, " "))
	case d.builtin:
		return strings.TrimSpace("builtin " + name + " " + strings.Join(params, " "))
	}
	return strings.TrimSpace("external " + name + " " + strings.Join(params, " "))
}

func VerifC22Resolve() {
	full := rt.Param("full") != 0
	a := &def{name: nameA, other: nameB}
	b := &def{name: nameB, other: nameA}
	a.priv = rt.Choice("a-private", nPriv)
	a.alias = rt.Choice("a-alias", nAlias)
	a.function = rt.Choice("a-function", 2) == 1
	a.builtin = rt.Choice("a-builtin", 2) == 1
	if full {
		b.priv = rt.Choice("b-private", nPriv)
		b.alias = rt.Choice("b-alias", nAlias)
	} else {
		b.priv = rt.Choice("b-private", 2)       // none / same module
		b.alias = rt.Choice("b-alias", 2) * aOther // none / alias of A (alias pointing at an alias, cycle)
	}
	b.function = rt.Choice("b-function", 2) == 1
	b.builtin = rt.Choice("b-builtin", 2) == 1

	mx.Init()
	clean(nameA, nameB, plain)
	defer clean(nameA, nameB, plain)
	oldExec := lang.GoFunctions["exec"]
	defer func() { lang.GoFunctions["exec"] = oldExec }()
	mu.Lock()
	log = nil
	mu.Unlock()

	lang.DefineFunction("v22rec", func(p *lang.Process) error {
		s := p.Parameters.StringArray()
		record(s[0], s[1], s[2:])
		return nil
	}, types.Null)
	lang.DefineFunction(plain, func(p *lang.Process) error {
		record("builtin", plain, p.Parameters.StringArray())
		return nil
	}, types.Null)
	lang.DefineFunction("exec", func(p *lang.Process) error {
		s := p.Parameters.StringArray()
		record("external", s[0], s[1:])
		return nil
	}, types.Null)
	for _, d := range []*def{a, b} {
		d := d
		if d.builtin {
			lang.DefineFunction(d.name, func(p *lang.Process) error {
				record("builtin", d.name, p.Parameters.StringArray())
				return nil
			}, types.Null)
		}
		if d.priv == pOther {
			lang.PrivateFunctions.Define(d.name, nil, []rune("v22rec foreign-private "+d.name+" @PARAMS"),
				&ref.File{Source: &ref.Source{Module: "murex/verif-other"}})
		}
	}

	var sb strings.Builder
	a.define(&sb)
	b.define(&sb)
	sb.WriteString(nameA + " arg\n")
	_, _, _, err := mx.Run(sb.String())
	rt.Assert(err == nil, "program does not compile:\n"+sb.String())
	rt.Reach("program-ran")

	want := resolve(map[string]*def{nameA: a, nameB: b}, nameA, []string{"arg"}, false)
	mu.Lock()
	got := strings.Join(log, " / ")
	mu.Unlock()
	rt.Assert(got == want, "program:\n"+sb.String()+"ran ["+got+"], the resolution order says ["+want+"]")
	if a.alias != aNone && a.priv != pSame {
		rt.Reach("alias-expanded")
	}
}
