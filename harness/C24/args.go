package management

// C24 - the `args` builtin exposes the result of flag parsing, or the error text, without
// failing itself. Real code executed: cmdArgs, json.UnmarshalMurex, parameters.ParseFlags,
// json.Marshal, Variables.Set.

import (
	stdjson "encoding/json"
	"strings"

	"github.com/lmorg/murex/builtins/pipes/null"
	"github.com/lmorg/murex/config"
	"github.com/lmorg/murex/lang"
	"github.com/lmorg/murex/lang/parameters"
	"github.com/lmorg/murex/lang/types"
	"github.com/lmorg/murex/zzverif/rt"
)

const verifC24tableJSON = `"Flags": {"--s": "str", "--i": "int", "--n": "num", "--b": "bool", "-a": "--b", "-c": "-a", "-j": "--i"}`

func VerifC24ArgsBuiltin() {
	n := rt.Choice("nargs", rt.Param("n")+1)
	allow := rt.Choice("AllowAdditional", 2) == 1
	strict := rt.Choice("StrictFlagPlacement", 2) == 1
	args := parameters.VerifC24Args(n)
	rt.Note("args: " + strings.Join(args, " "))
	model := parameters.VerifC24Reference(args, parameters.VerifC24Table(), allow, false, strict)
	parameters.VerifC24Known("C24-value-flag-silently-dropped", model.Ambiguous)
	rt.Assume(!model.Ambiguous) // judged by VerifC24Parse
	// known finding: on a parsing error cmdArgs dereferences the nil flag set
	parameters.VerifC24Known("C24-args-nil-flags", model.Err)

	block := "{" + verifC24tableJSON
	if allow {
		block += `, "AllowAdditional": true`
	}
	if strict {
		block += `, "StrictFlagPlacement": true`
	}
	block += "}"

	config.InitConf.Define("proc", "strict-vars", config.Properties{Description: "strict-vars", Default: true, DataType: types.Boolean})
	scope := new(lang.Process)
	scope.Id = 7
	scope.Name.Set("myfunc")
	scope.Parameters.DefineParsed(append([]string{}, args...))
	scope.Config = config.InitConf.Copy()
	scope.Variables = lang.NewVariables(scope)
	p := new(lang.Process)
	p.Id = 8
	p.Scope = scope
	p.Parent = scope
	p.Config = scope.Config
	p.Variables = scope.Variables
	p.Stdout = new(null.Null)
	p.Stderr = new(null.Null)
	p.Parameters.DefineParsed([]string{"result", block})

	var err error
	_, panicked := rt.CatchPanic(func() { err = cmdArgs(p) })
	rt.Assert(!panicked, "`args` panicked")
	rt.Assert(err == nil, "`args` failed itself")
	rt.Reach("args-returned")

	text, gerr := p.Variables.GetString("result")
	rt.Assert(gerr == nil, "`args` did not write its variable")
	var got struct {
		Self       string
		Flags      map[string]any
		Additional []string
		Error      string
	}
	rt.Assert(stdjson.Unmarshal([]byte(text), &got) == nil, "the variable written by `args` is not JSON")
	rt.Assert(got.Self == "myfunc", "Self is not the function's name")

	if model.Err {
		rt.Reach("error-exposed")
		rt.Assert(got.Error != "", "parsing failed but `args` exposes no error text")
		rt.Assert(p.ExitNum != 0, "parsing failed but `args` exits with zero")
		return
	}
	rt.Reach("result-exposed")
	rt.Assert(got.Error == "", "`args` exposes an error although parsing succeeds")
	rt.Assert(p.ExitNum == 0, "`args` exits non-zero although parsing succeeds")
	rt.Assert(len(got.Flags) == len(model.Flags), "number of exposed flags differs")
	for k, want := range model.Flags {
		v, ok := got.Flags[k]
		rt.Assert(ok, "a given flag is not exposed")
		switch w := want.(type) {
		case string:
			s, ok := v.(string)
			rt.Assert(ok && s == w, "str flag exposed with another value")
		case int:
			f, ok := v.(float64) // JSON numbers decode as float64
			rt.Assert(ok && f == float64(w), "int flag exposed with another value")
		case float64:
			f, ok := v.(float64)
			rt.Assert(ok && f == w, "num flag exposed with another value")
		case bool:
			b, ok := v.(bool)
			rt.Assert(ok && b == w, "bool flag exposed with another value")
		}
	}
	rt.Assert(len(got.Additional) == len(model.Additional), "number of exposed additional parameters differs")
	for i := range model.Additional {
		rt.Assert(got.Additional[i] == model.Additional[i], "exposed additional parameters differ")
	}
}
