package parameters

// C24 - Flag parsing follows the declared flag table.
// Real code executed: ParseFlags, (*FlagsT).set / GetMap / GetValue, types.ConvertGoType.

import (
	"strings"

	"github.com/lmorg/murex/zzverif/rt"
)

// VerifC24Table: the flag table of the harness: one flag of every type, an alias and an
// alias of an alias (acyclic).
func VerifC24Table() map[string]string {
	return map[string]string{
		"--s": "str",
		"--i": "int",
		"--n": "num",
		"--b": "bool",
		"-a":  "--b",
		"-c":  "-a",
		"-j":  "--i",
	}
}

// VerifC24Pool: the argument vocabulary.
var VerifC24Pool = []string{"--s", "--i", "--n", "--b", "-a", "-c", "-j", "--x", "--", "v", "7", "-3", "1.5"}

// VerifC24Model is the reference parser, written from the statement.
type VerifC24Model struct {
	Flags      map[string]any
	Additional []string
	Err        bool
	// Ambiguous: a flag that needs a value was followed by another declared flag or `--`.
	// The statement does not say whether that token is the value or the value is missing;
	// Dropped names the flags concerned: without an error they must still be reported.
	Ambiguous bool
	Dropped   []string
}

func verifC24resolve(table map[string]string, a string) (string, bool) {
	for hops := 0; hops < 10; hops++ {
		t, ok := table[a]
		if !ok || t == "" {
			return a, false
		}
		if strings.HasPrefix(t, "-") {
			a = t
			continue
		}
		return a, true
	}
	return a, false
}

// verifC24convert: value texts of the pool converted to the declared type.
func verifC24convert(text, typ string) (any, bool) {
	switch typ {
	case "str":
		return text, true
	case "int":
		switch text {
		case "7":
			return 7, true
		case "-3":
			return -3, true
		case "1.5":
			return 1, true
		}
		return nil, false
	case "num":
		switch text {
		case "7":
			return float64(7), true
		case "-3":
			return float64(-3), true
		case "1.5":
			return 1.5, true
		}
		return nil, false
	}
	return nil, false
}

func VerifC24Reference(args []string, table map[string]string, allowAdditional, ignoreInvalid, strict bool) (m VerifC24Model) {
	m.Flags = map[string]any{}
	m.Additional = []string{}
	pending := ""
	ignore := false
	assign := func(text string) bool {
		v, ok := verifC24convert(text, table[pending])
		if !ok {
			return false
		}
		m.Flags[pending] = v
		pending = ""
		return true
	}
	for _, a := range args {
		if ignore {
			m.Additional = append(m.Additional, a)
			continue
		}
		if strings.HasPrefix(a, "-") {
			if allowAdditional && a == "--" {
				if pending != "" {
					m.Ambiguous = true
					m.Dropped = append(m.Dropped, pending)
				}
				ignore = true
				continue
			}
			if t, declared := verifC24resolve(table, a); declared {
				if pending != "" {
					m.Ambiguous = true
					m.Dropped = append(m.Dropped, pending)
				}
				if table[t] == "bool" {
					m.Flags[t] = true
				} else {
					pending = t
				}
				continue
			}
			if pending != "" {
				if !assign(a) {
					m.Err = true
					return
				}
				continue
			}
			if ignoreInvalid && allowAdditional {
				m.Additional = append(m.Additional, a)
				continue
			}
			m.Err = true
			return
		}
		if pending != "" {
			if !assign(a) {
				m.Err = true
				return
			}
			continue
		}
		if !allowAdditional {
			m.Err = true
			return
		}
		m.Additional = append(m.Additional, a)
		if strict {
			ignore = true
		}
	}
	if pending != "" {
		m.Err = true
	}
	return
}

// VerifC24Known registers a known finding; -param assume_known=1 (development only) sets the
// matching inputs aside.
func VerifC24Known(id string, pred bool) {
	rt.KnownFinding(id, pred)
	if rt.Param("assume_known") == 1 {
		rt.Assume(!pred)
	}
}

// VerifC24Args draws n arguments from the pool.
func VerifC24Args(n int) []string {
	args := make([]string, n)
	for i := range args {
		args[i] = VerifC24Pool[rt.Choice("arg", len(VerifC24Pool))]
	}
	return args
}

func verifC24sameValue(a, b any) bool {
	switch x := a.(type) {
	case string:
		y, ok := b.(string)
		return ok && x == y
	case int:
		y, ok := b.(int)
		return ok && x == y
	case float64:
		y, ok := b.(float64)
		return ok && x == y
	case bool:
		y, ok := b.(bool)
		return ok && x == y
	}
	return false
}

// VerifC24Parse: ParseFlags against the reference parser.
func VerifC24Parse() {
	n := rt.Choice("nargs", rt.Param("n")+1)
	allow := rt.Choice("AllowAdditional", 2) == 1
	ignoreInvalid := rt.Choice("IgnoreInvalidFlags", 2) == 1
	strict := rt.Choice("StrictFlagPlacement", 2) == 1
	// IgnoreInvalidFlags without AllowAdditional: the statement does not say where an ignored
	// flag would go
	rt.Assume(allow || !ignoreInvalid)
	args := VerifC24Args(n)
	given := append([]string{}, args...)
	rt.Note("args: " + strings.Join(given, " "))
	model := VerifC24Reference(given, VerifC24Table(), allow, ignoreInvalid, strict)

	VerifC24Known("C24-value-flag-silently-dropped", model.Ambiguous)

	var (
		flags      *FlagsT
		additional []string
		err        error
	)
	_, panicked := rt.CatchPanic(func() {
		flags, additional, err = ParseFlags(args, &Arguments{
			AllowAdditional: allow, IgnoreInvalidFlags: ignoreInvalid, StrictFlagPlacement: strict,
			Flags: VerifC24Table(),
		})
	})
	rt.Assert(!panicked, "ParseFlags panicked instead of reporting a clean error")
	rt.Reach("parsed")

	if model.Ambiguous {
		rt.Reach("ambiguous")
		if err == nil {
			got := flags.GetMap()
			for _, f := range model.Dropped {
				_, ok := got[f]
				rt.Assert(ok, "a flag that needs a value was given without one: neither reported nor an error")
			}
		}
		return
	}
	if model.Err {
		rt.Reach("error")
		rt.Assert(err != nil, "no error although the arguments do not fit the flag table")
		return
	}
	rt.Reach("ok")
	rt.Assert(err == nil, "error although the arguments fit the flag table")
	got := flags.GetMap()
	rt.Assert(len(got) == len(model.Flags), "number of reported flags differs")
	for k, want := range model.Flags {
		v, ok := got[k]
		rt.Assert(ok, "a given flag is not reported (under its target name)")
		rt.Assert(verifC24sameValue(want, v), "flag value is not the argument converted to the declared type")
		rt.Assert(verifC24sameValue(want, flags.GetValue(k).Any()), "GetValue differs from GetMap")
	}
	rt.Assert(len(additional) == len(model.Additional), "number of additional parameters differs")
	for i := range model.Additional {
		rt.Assert(additional[i] == model.Additional[i], "additional parameters differ")
	}
}

// VerifC24Symbolic: one argument is an arbitrary 2-character text instead of a pool word.
func VerifC24Symbolic() {
	n := rt.Param("n")
	allow := rt.Choice("AllowAdditional", 2) == 1
	strict := rt.Choice("StrictFlagPlacement", 2) == 1
	args := VerifC24Args(n)
	pos := rt.Choice("pos", n)
	w := rt.String("word", 2)
	for i := 0; i < len(w); i++ {
		rt.Assume(rt.And(w[i] > ' ', w[i] <= '~')) // no blanks: murex trims them before converting numbers ("  " converts to 0; the statement is silent)
	}
	// the word is not a flag-like text (those are covered by the pool) and not a number
	rt.Assume(w[0] != '-')
	rt.Assume(rt.And(rt.Or(w[0] < '0', w[0] > '9'), rt.And(w[0] != '+', w[0] != '.')))
	rt.Assume(rt.And(w != "In", rt.And(w != "in", rt.And(w != "iN", w != "IN")))) // "Inf"/"NaN" need 3 characters; kept for clarity
	args[pos] = w
	given := append([]string{}, args...)

	// reference: the word behaves like the pool word "v" (a plain value)
	ref := append([]string{}, given...)
	ref[pos] = "v"
	model := VerifC24Reference(ref, VerifC24Table(), allow, false, strict)
	rt.Assume(!model.Ambiguous) // judged by VerifC24Parse

	var (
		flags      *FlagsT
		additional []string
		err        error
	)
	_, panicked := rt.CatchPanic(func() {
		flags, additional, err = ParseFlags(args, &Arguments{AllowAdditional: allow, StrictFlagPlacement: strict, Flags: VerifC24Table()})
	})
	rt.Assert(!panicked, "ParseFlags panicked instead of reporting a clean error")
	rt.Reach("parsed")
	if model.Err {
		rt.Assert(err != nil, "no error although the arguments do not fit the flag table")
		return
	}
	rt.Reach("ok")
	rt.Assert(err == nil, "error although the arguments fit the flag table")
	got := flags.GetMap()
	rt.Assert(len(got) == len(model.Flags), "number of reported flags differs")
	for k, want := range model.Flags {
		v, ok := got[k]
		rt.Assert(ok, "a given flag is not reported")
		if s, isStr := want.(string); isStr && s == "v" {
			gs, ok := v.(string)
			rt.Assert(ok && gs == w, "str flag value differs from the argument")
		} else {
			rt.Assert(verifC24sameValue(want, v), "flag value is not the argument converted to the declared type")
		}
	}
	rt.Assert(len(additional) == len(model.Additional), "number of additional parameters differs")
	for i := range model.Additional {
		if model.Additional[i] == "v" {
			rt.Assert(additional[i] == w || additional[i] == "v", "additional parameters differ")
		} else {
			rt.Assert(additional[i] == model.Additional[i], "additional parameters differ")
		}
	}
}
