package parameters

// C24 - declared flags of any name: the table is what decides what a flag is.

import (
	"github.com/lmorg/murex/zzverif/rt"
)

// VerifC24Names: the table declares one more flag whose name is arbitrary: `-` followed by 0..2
// printable characters (so also the bare `-`, `-=`, `---`, `-é`-like bytes are out: ASCII only),
// of type str / int / bool or an alias of --b. The argument list gives that flag (with a value
// where its type needs one) between 0..1 other pool words. It must be reported like any other
// declared flag.
func VerifC24Names() {
	l := rt.Choice("namelen", rt.Param("extra")+1)
	name := "-" + rt.String("name", l)
	for i := 1; i < len(name); i++ {
		rt.Assume(rt.And(name[i] > ' ', name[i] <= '~'))
		rt.Assume(name[i] != '=') // `-k=v` is a spelling some flag parsers give a meaning; the statement is silent
	}
	// not one of the names the table or the pool already uses, not `--` (the terminator) and
	// not a negative number
	for _, used := range []string{"--s", "--i", "--n", "--b", "-a", "-c", "-j", "--x", "--", "-3"} {
		rt.Assume(name != used)
	}
	if len(name) > 1 {
		rt.Assume(rt.And(rt.Or(name[1] < '0', name[1] > '9'), name[1] != '.'))
	}
	typ := []string{"str", "int", "bool", "--b"}[rt.Choice("type", 4)]
	table := VerifC24Table()
	table[name] = typ

	var args []string
	before := rt.Choice("before", 3) // nothing, a bool flag, a plain value (needs AllowAdditional)
	switch before {
	case 1:
		args = append(args, "--b")
	case 2:
		args = append(args, "v")
	}
	args = append(args, name)
	switch typ {
	case "str", "int":
		args = append(args, "7")
	}
	allow := before == 2 || rt.Choice("AllowAdditional", 2) == 1
	given := append([]string{}, args...)

	var (
		flags      *FlagsT
		additional []string
		err        error
	)
	_, panicked := rt.CatchPanic(func() {
		flags, additional, err = ParseFlags(args, &Arguments{AllowAdditional: allow, Flags: table})
	})
	rt.Assert(!panicked, "ParseFlags panicked on a declared flag")
	rt.Reach("named-parsed")
	rt.Assert(err == nil, "error although every argument is a declared flag, its value or an allowed additional parameter")
	if err != nil {
		return
	}
	got := flags.GetMap()
	target := name
	var want any
	switch typ {
	case "str":
		want = "7"
	case "int":
		want = 7
	case "bool":
		want = true
	default:
		target, want = "--b", true
	}
	v, ok := got[target]
	rt.Assert(ok, "a declared flag given on the command line is not reported")
	rt.Assert(verifC24sameValue(want, v), "the value of a declared flag is not the argument converted to the declared type")
	wantAdditional := 0
	if before == 2 {
		wantAdditional = 1
	}
	rt.Assert(len(additional) == wantAdditional, "a declared flag (or its value) ended up among the additional parameters")
	_ = given
}
