package lists

// C38 - List builtins preserve their elements.
// Real code executed: cmdMSort (sort.Strings interpreted from source), cmdMtac, cmdPrepend,
// cmdAppend (types.ConvertGoType), cmdMatch (match / !match, bytes.Contains), cmdLeft, cmdRight,
// cmdPrefix, cmdSuffix (cmdFix), streams.Stdin, lang.MarshalData / UnmarshalData,
// lang.ArrayDataTemplate.
//
// The list travels in a data type "verifc38" registered through the public
// stdio.RegisterReadArray / RegisterReadArrayWithType / RegisterWriteArray and
// lang.RegisterMarshaller / RegisterUnmarshaller API: readers deliver the harness's []string (via
// murex's own lang.ArrayDataTemplate), writers/marshaller record the elements. No JSON involved, the
// elements stay symbolic.

import (
	"context"

	"github.com/lmorg/murex/builtins/pipes/streams"
	_ "github.com/lmorg/murex/builtins/types/string"
	"github.com/lmorg/murex/lang"
	"github.com/lmorg/murex/lang/ref"
	"github.com/lmorg/murex/lang/stdio"
	"github.com/lmorg/murex/lang/types"
	"github.com/lmorg/murex/zzverif/rt"
)

var (
	verifC38in  = map[stdio.Io][]string{}
	verifC38out []string
	verifC38set bool
)

type verifC38writer struct{}

func (verifC38writer) Write(b []byte) error {
	verifC38out, verifC38set = append(verifC38out, string(b)), true
	return nil
}
func (verifC38writer) WriteString(s string) error {
	verifC38out, verifC38set = append(verifC38out, s), true
	return nil
}
func (verifC38writer) Close() error { verifC38set = true; return nil }

func init() {
	stdio.RegisterReadArray("verifc38", func(ctx context.Context, read stdio.Io, callback func([]byte)) error {
		return lang.ArrayDataTemplate(ctx, nil, nil, verifC38in[read], callback)
	})
	stdio.RegisterReadArrayWithType("verifc38", func(ctx context.Context, read stdio.Io, callback func(any, string)) error {
		for _, s := range verifC38in[read] {
			select {
			case <-ctx.Done():
				return nil
			default:
				callback(s, types.String)
			}
		}
		return nil
	})
	stdio.RegisterWriteArray("verifc38", func(stdio.Io) (stdio.ArrayWriter, error) { return verifC38writer{}, nil })
	lang.RegisterUnmarshaller("verifc38", func(p *lang.Process) (any, error) {
		return append([]string{}, verifC38in[p.Stdin]...), nil
	})
	lang.RegisterMarshaller("verifc38", func(p *lang.Process, v any) ([]byte, error) {
		switch a := v.(type) {
		case []string:
			verifC38out, verifC38set = append([]string{}, a...), true
		case []any:
			verifC38out, verifC38set = nil, true
			for _, e := range a {
				s, ok := e.(string)
				rt.Assert(ok, "a string element came back as another type")
				verifC38out = append(verifC38out, s)
			}
		default:
			rt.Fail("the builtin marshalled something that is not an array")
		}
		return []byte("<marshalled>"), nil
	})
}

func verifC38str(tag string, max int) string {
	k := rt.Choice(tag+"_len", max+1)
	s := rt.String(tag, k)
	for i := 0; i < k; i++ {
		rt.Assume(s[i] < 0x80) // ASCII (engine: ranging over symbolic text); otherwise any byte incl. NUL, newline, quotes
	}
	return s
}

func verifC38proc(items []string, not bool, params ...string) *lang.Process {
	verifC38out, verifC38set = nil, false
	p := new(lang.Process)
	in := streams.NewStdin()
	in.SetDataType("verifc38")
	verifC38in[in] = items
	p.Stdin = in
	p.Stdout = streams.NewStdin()
	p.Stderr = streams.NewStdin()
	p.IsMethod = true
	p.IsNot = not
	p.Context, p.Done = context.WithCancel(context.Background())
	p.FileRef = &ref.File{Source: &ref.Source{Module: "murex/verif"}}
	p.Parameters.DefineParsed(params)
	return p
}

func verifC38count(list []string, x string) int {
	c := 0
	for _, e := range list {
		c += rt.IteInt(e == x, 1, 0)
	}
	return c
}

func verifC38same(got, want []string, msg string) {
	rt.Assert(len(got) == len(want), msg+" (number of elements)")
	for i := 0; i < len(got) && i < len(want); i++ {
		rt.Assert(got[i] == want[i], msg)
	}
}

func verifC38items() []string {
	n := rt.Choice("elements", rt.Param("n")+1)
	items := make([]string, n)
	for i := range items {
		items[i] = verifC38str("element", rt.Param("len"))
	}
	return items
}

// VerifC38Order: msort and mtac.
func VerifC38Order() {
	items := verifC38items()
	orig := append([]string{}, items...)
	n := len(items)
	switch rt.Choice("builtin", 2) {
	case 0:
		p := verifC38proc(items, false)
		err := cmdMSort(p)
		rt.Reach("msort-returned")
		rt.Assert(err == nil && verifC38set, "msort failed")
		out := verifC38out
		rt.Assert(len(out) == n, "msort changed the number of elements")
		for i := 0; i+1 < len(out); i++ {
			rt.Assert(out[i] <= out[i+1], "msort output is not in non-decreasing string order")
		}
		for _, x := range orig {
			rt.Assert(verifC38count(out, x) == verifC38count(orig, x), "msort output is not a permutation of its input")
		}
	case 1:
		p := verifC38proc(items, false)
		err := cmdMtac(p)
		rt.Reach("mtac-returned")
		rt.Assert(err == nil && verifC38set, "mtac failed")
		want := make([]string, n)
		for i := range orig {
			want[n-1-i] = orig[i]
		}
		verifC38same(verifC38out, want, "mtac output is not the input in reverse order")
	}
}

// VerifC38Add: prepend and append with 1..2 parameters.
func VerifC38Add() {
	items := verifC38items()
	orig := append([]string{}, items...)
	k := 1 + rt.Choice("parameters", 2)
	params := make([]string, k)
	for i := range params {
		params[i] = verifC38str("parameter", rt.Param("len"))
	}
	given := append([]string{}, params...)
	if rt.Choice("builtin", 2) == 0 {
		p := verifC38proc(items, false, params...)
		err := cmdPrepend(p)
		rt.Reach("prepend-returned")
		rt.Assert(err == nil && verifC38set, "prepend failed")
		verifC38same(verifC38out, append(given, orig...), "prepend did not add exactly the given elements at the start")
	} else {
		p := verifC38proc(items, false, params...)
		err := cmdAppend(p)
		rt.Reach("append-returned")
		rt.Assert(err == nil && verifC38set, "append failed")
		verifC38same(verifC38out, append(orig, given...), "append did not add exactly the given elements at the end")
	}
}

// VerifC38Match: match and !match with the same parameter split the input into two complementary
// subsequences: merged back in input order they give the input, element by element.
func VerifC38Match() {
	items := verifC38items()
	orig := append([]string{}, items...)
	k := 1 + rt.Choice("parameter_len", rt.Param("len"))
	param := rt.String("parameter", k)
	for i := 0; i < k; i++ {
		rt.Assume(param[i] < 0x80)
	}
	p := verifC38proc(items, false, param)
	err := cmdMatch(p)
	rt.Assert(err == nil, "match failed")
	yes := verifC38out
	p = verifC38proc(items, true, param)
	err = cmdMatch(p)
	rt.Assert(err == nil, "!match failed")
	no := verifC38out
	rt.Reach("match-returned")
	rt.Assert(len(yes)+len(no) == len(orig), "match and !match together do not have as many elements as the input")
	// complementary subsequences: there is exactly one way to be it when walking the input in order -
	// unless an element equals the heads of both, then either choice must work; elements that are
	// equal as strings are interchangeable, so taking from `yes` first is without loss.
	a, b := 0, 0
	for _, x := range orig {
		if a < len(yes) && yes[a] == x { // forks
			a++
		} else if b < len(no) && no[b] == x {
			b++
		} else {
			rt.Fail("match / !match do not split the input into two complementary subsequences")
		}
	}
	rt.Assert(a == len(yes) && b == len(no), "match / !match output elements that are not in the input")
}

// VerifC38Edit: prefix, suffix, left, right change each element as documented, one output element
// per input element, in order.
func VerifC38Edit() {
	items := verifC38items()
	orig := append([]string{}, items...)
	want := make([]string, len(orig))
	var err error
	switch rt.Choice("builtin", 4) {
	case 0:
		fix := verifC38str("parameter", rt.Param("len"))
		err = cmdPrefix(verifC38proc(items, false, fix))
		for i, x := range orig {
			want[i] = fix + x
		}
		rt.Reach("prefix-returned")
	case 1:
		fix := verifC38str("parameter", rt.Param("len"))
		err = cmdSuffix(verifC38proc(items, false, fix))
		for i, x := range orig {
			want[i] = x + fix
		}
		rt.Reach("suffix-returned")
	case 2: // left k: the first k bytes of each element (k > 0)
		k := 1 + rt.Choice("count", rt.Param("len")+1)
		err = cmdLeft(verifC38proc(items, false, string(rune('0'+k))))
		for i, x := range orig {
			want[i] = x
			if len(x) > k {
				want[i] = x[:k]
			}
		}
		rt.Reach("left-returned")
	case 3: // right k: the last k bytes of each element (k > 0)
		k := 1 + rt.Choice("count", rt.Param("len")+1)
		err = cmdRight(verifC38proc(items, false, string(rune('0'+k))))
		for i, x := range orig {
			want[i] = x
			if len(x) > k {
				want[i] = x[len(x)-k:]
			}
		}
		rt.Reach("right-returned")
	}
	rt.Assert(err == nil, "the builtin failed")
	verifC38same(verifC38out, want, "an element was added, dropped or not changed as documented")
}

// ---- long elements through the real str reader and writer ----

// VerifC38Long: a `str` list of `items` lines of `width` bytes (more than the line scanner's 4 KiB
// start buffer in total; every other line carries the marker KEEP, the first byte of each line is
// symbolic) through match / !match / left / right with the real str array reader and writer
// (slices of the scan buffer in, buffered or unbuffered lines out): match and !match output
// exactly the marked / unmarked lines, left / right exactly the first / last 5 bytes of each.
func VerifC38Long() {
	n, w := rt.Param("items"), rt.Param("width")
	lines := make([]string, n)
	text := ""
	for i := range lines {
		b := make([]byte, w)
		for j := range b {
			b[j] = byte('a' + (i+j)%26)
		}
		c := rt.Byte("first")
		rt.Assume(rt.And(c >= 'A', c <= 'J'))
		b[0] = c
		if i%2 == 0 {
			for j, c := range []byte("KEEP") {
				b[8+j] = c
			}
		}
		lines[i] = string(b)
		text += lines[i] + "\n"
	}
	mk := func(not bool, params ...string) *lang.Process {
		p := new(lang.Process)
		in := streams.NewStdin()
		in.SetDataType(types.String)
		_, err := in.Write([]byte(text))
		rt.Assert(err == nil, "cannot fill stdin")
		p.Stdin = in
		p.Stdout = streams.NewStdin()
		p.Stderr = streams.NewStdin()
		p.IsMethod = true
		p.IsNot = not
		p.Context, p.Done = context.WithCancel(context.Background())
		p.FileRef = &ref.File{Source: &ref.Source{Module: "murex/verif"}}
		p.Parameters.DefineParsed(params)
		return p
	}
	var p *lang.Process
	var err error
	want := ""
	switch rt.Choice("builtin", 4) {
	case 0:
		p = mk(false, "KEEP")
		err = cmdMatch(p)
		for i, l := range lines {
			if i%2 == 0 {
				want += l + "\n"
			}
		}
	case 1:
		p = mk(true, "KEEP")
		err = cmdMatch(p)
		for i, l := range lines {
			if i%2 != 0 {
				want += l + "\n"
			}
		}
	case 2:
		p = mk(false, "5")
		err = cmdLeft(p)
		for _, l := range lines {
			want += l[:5] + "\n"
		}
	default:
		p = mk(false, "5")
		err = cmdRight(p)
		for _, l := range lines {
			want += l[len(l)-5:] + "\n"
		}
	}
	rt.Reach("long-returned")
	rt.Assert(err == nil, "the list builtin failed on a list of long elements")
	out, err := p.Stdout.ReadAll()
	rt.Assert(err == nil, "cannot read the builtin's output")
	rt.Assert(len(out) == len(want), "the list builtin output the wrong number of bytes for a list of long elements")
	if len(out) == len(want) {
		rt.Assert(string(out) == want, "the list builtin changed or mixed up elements of a list of long elements")
	}
}
