// Package c21 - C21: external commands report their real exit status.
//
// Real code executed: the whole interpreter on a murex block that runs an external command
// (`exec helper`): executeProcess -> GoFunctions["exec"] = lang.External -> execute -> execFork
// -> sysProcT.ExitNum, the err -> ExitNum clean-up of executeProcess, the && / || scheduler and
// the try builtin. Only the operating system is replaced: os/exec's Command / Start / Wait and
// os.ProcessState's ExitCode / String follow the documented contract of os/exec for a child
// that exits with a symbolic code 0..255 or is terminated by a symbolic signal 1..31.
package c21

import (
	"fmt"
	"os"
	"os/exec"
	"strings"

	"github.com/lmorg/murex/zzverif/mx"
	"github.com/lmorg/murex/zzverif/rt"
)

var verifChains = []string{
	"exec verifhelper",
	"exec verifhelper && out ran",
	"exec verifhelper || out ran",
	"try { exec verifhelper; out ran }",
	"verifhelper", // not spelt with exec: falls through to the shell-execute branch of executeProcess
}

// verifExpect: the statement. success <=> exited with code 0.
func verifCheck(chain int, signalled bool, code int, stdout string, exitNum int) {
	success := rt.And(!signalled, code == 0)
	ran := stdout == "ran\n"
	switch chain {
	case 0, 4:
		if signalled {
			rt.Assert(exitNum != 0, "a command ended by a signal got exit number 0")
		} else {
			rt.Assert(exitNum == code, "exit number differs from the command's exit status")
		}
	case 1:
		rt.Assert(ran == success, "`cmd && out ran`: the second command ran although cmd failed (or was skipped although it succeeded)")
	case 2:
		rt.Assert(ran == !success, "`cmd || out ran`: the second command was skipped although cmd failed (or ran although it succeeded)")
	case 3:
		rt.Assert(ran == success, "`try { cmd; out ran }`: try carried on after a failed command (or stopped after a successful one)")
	}
}

// VerifC21Status runs under symgo with the OS layer replaced by its contract.
func VerifC21Status() {
	mx.Init()
	chain := rt.Choice("chain", len(verifChains))
	signalled := rt.Bool("signalled")
	code := rt.IntRange("code", 0, 255)
	sig := rt.IntRange("signal", 1, 31)
	_ = sig
	rt.KnownFinding("C21-signal-exit-zero", signalled)

	// os/exec contract -------------------------------------------------------------
	rt.Stub("os/exec.Command", func(name string, arg ...string) *exec.Cmd {
		return &exec.Cmd{Path: name, Args: append([]string{name}, arg...)}
	})
	rt.Stub("(*os/exec.Cmd).Start", func(c *exec.Cmd) error {
		c.Process = &os.Process{Pid: 4242}
		return nil
	})
	// Wait: "returns nil if the command ... exits with a zero exit status ... otherwise the
	// error is of type *ExitError"; it sets Cmd.ProcessState.
	rt.Stub("(*os/exec.Cmd).Wait", func(c *exec.Cmd) error {
		c.ProcessState = new(os.ProcessState)
		if signalled {
			rt.Reach("child-signalled")
			return &exec.ExitError{ProcessState: c.ProcessState}
		}
		if code == 0 {
			rt.Reach("child-exit-0")
			return nil
		}
		rt.Reach("child-exit-nonzero")
		return &exec.ExitError{ProcessState: c.ProcessState}
	})
	// ProcessState.ExitCode: "the exit code of the exited process, or -1 if the process
	// hasn't exited or was terminated by a signal"
	rt.Stub("(*os.ProcessState).ExitCode", func(ps *os.ProcessState) int {
		if signalled {
			return -1
		}
		return code
	})
	// ProcessState.String (= ExitError.Error): "exit status N" / "signal: <name>"
	rt.Stub("(*os.ProcessState).String", func(ps *os.ProcessState) string {
		if signalled {
			return "signal: killed"
		}
		return "exit status N"
	})

	stdout, _, exitNum, err := mx.Run(verifChains[chain])
	rt.Assert(err == nil, "block does not compile")
	rt.Reach("ran-block")
	verifCheck(chain, signalled, code, stdout, exitNum)
}

// VerifC21Replay is the native driver: same inputs in the same order, but the helper is a real
// `sh` child that exits with the code or kills itself with the signal.
func VerifC21Replay() {
	mx.Init()
	chain := rt.Choice("chain", len(verifChains))
	signalled := rt.Bool("signalled")
	code := rt.IntRange("code", 0, 255)
	sig := rt.IntRange("signal", 1, 31)
	switch sig {
	case 17, 18, 19, 20, 21, 22, 23, 28:
		// default action of these signals is not termination (ignored / stop / continue)
		rt.Assume(!signalled)
	}
	helper := fmt.Sprintf("sh -c 'exit %d'", code)
	if signalled {
		helper = fmt.Sprintf("sh -c 'kill -%d $$'", sig)
	}
	block := strings.Replace(verifChains[chain], "verifhelper", helper, 1)
	stdout, _, exitNum, err := mx.Run(block)
	rt.Assert(err == nil, "block does not compile: "+block)
	defer func() {
		if r := recover(); r != nil {
			if f, ok := r.(rt.ReplayFailure); ok {
				panic(rt.ReplayFailure{Msg: f.Msg + fmt.Sprintf(" [block: %s ; stdout %q exit number %d]", block, stdout, exitNum)})
			}
			panic(r)
		}
	}()
	verifCheck(chain, signalled, code, stdout, exitNum)
}

// ---- two external commands in one block ----

var verifPairs = []string{
	"exec verifhelper1 && out a; exec verifhelper2 && out b",
	"exec verifhelper1 || out a; exec verifhelper2 || out b",
	"exec verifhelper1 && out a; exec verifhelper2 || out b",
	"exec verifhelper1 || out a; exec verifhelper2 && out b",
	"exec verifhelper1; exec verifhelper2",
	"try { exec verifhelper1 && out a }; exec verifhelper2 && out b",
	"exec verifhelper1 && exec verifhelper2 && out b",
	"exec verifhelper1 || exec verifhelper2 || out b",
}

// verifCheckPair: every && / || / ; decision looks at the real exit status of the command
// directly before it - also in the second statement of a block.
func verifCheckPair(pair int, code1, code2 int, stdout string, exitNum int) {
	ok1, ok2 := code1 == 0, code2 == 0
	want := ""
	add := func(c bool, s string) {
		if c {
			want += s + "\n"
		}
	}
	switch pair {
	case 0:
		add(ok1, "a")
		add(ok2, "b")
	case 1:
		add(!ok1, "a")
		add(!ok2, "b")
	case 2:
		add(ok1, "a")
		add(!ok2, "b")
	case 3:
		add(!ok1, "a")
		add(ok2, "b")
	case 4:
		rt.Assert(exitNum == code2, "`cmd1; cmd2`: the block's exit number is not the exit status of the last command")
	case 5:
		add(ok1, "a")
		add(ok2, "b")
	case 6:
		add(ok1 && ok2, "b")
	case 7:
		add(!ok1 && !ok2, "b")
	}
	rt.Assert(stdout == want, "&& / || in a block with two external commands did not follow the commands' real exit status")
}

// VerifC21Pair: two children with independent symbolic exit codes.
func VerifC21Pair() {
	mx.Init()
	pair := rt.Choice("pair", len(verifPairs))
	code1 := rt.IntRange("code1", 0, 255)
	code2 := rt.IntRange("code2", 0, 255)
	codeOf := func(c *exec.Cmd) int {
		if strings.HasSuffix(c.Path, "1") {
			return code1
		}
		return code2
	}
	states := map[*os.ProcessState]int{}
	rt.Stub("os/exec.Command", func(name string, arg ...string) *exec.Cmd {
		return &exec.Cmd{Path: name, Args: append([]string{name}, arg...)}
	})
	rt.Stub("(*os/exec.Cmd).Start", func(c *exec.Cmd) error {
		c.Process = &os.Process{Pid: 4242}
		return nil
	})
	rt.Stub("(*os/exec.Cmd).Wait", func(c *exec.Cmd) error {
		c.ProcessState = new(os.ProcessState)
		states[c.ProcessState] = codeOf(c)
		if codeOf(c) == 0 {
			return nil
		}
		return &exec.ExitError{ProcessState: c.ProcessState}
	})
	rt.Stub("(*os.ProcessState).ExitCode", func(ps *os.ProcessState) int { return states[ps] })
	rt.Stub("(*os.ProcessState).String", func(ps *os.ProcessState) string { return "exit status N" })

	stdout, _, exitNum, err := mx.Run(verifPairs[pair])
	rt.Assert(err == nil, "block does not compile")
	rt.Reach("ran-pair")
	verifCheckPair(pair, code1, code2, stdout, exitNum)
}

// VerifC21PairReplay: native driver with real `sh` children.
func VerifC21PairReplay() {
	mx.Init()
	pair := rt.Choice("pair", len(verifPairs))
	code1 := rt.IntRange("code1", 0, 255)
	code2 := rt.IntRange("code2", 0, 255)
	block := strings.Replace(verifPairs[pair], "verifhelper1", fmt.Sprintf("sh -c 'exit %d'", code1), 1)
	block = strings.Replace(block, "verifhelper2", fmt.Sprintf("sh -c 'exit %d'", code2), 1)
	stdout, _, exitNum, err := mx.Run(block)
	rt.Assert(err == nil, "block does not compile: "+block)
	defer func() {
		if r := recover(); r != nil {
			if f, ok := r.(rt.ReplayFailure); ok {
				panic(rt.ReplayFailure{Msg: f.Msg + fmt.Sprintf(" [block: %s ; stdout %q exit number %d]", block, stdout, exitNum)})
			}
			panic(r)
		}
	}()
	verifCheckPair(pair, code1, code2, stdout, exitNum)
}
