// Package c15 - C15: array streams round-trip and foreach visits each element once.
//
// Real code executed: streams.Stdin.WriteArray / ReadArray -> stdio.WriteArray / ReadArray
// dispatch (lang/stdio/register.go), the registered arrayWriter / readArray of the types str,
// generic and jsonl (bufio.Scanner, text/tabwriter, streams.Stdin), and - second harness - the
// foreach builtin inside the real interpreter.
package c15

import (
	"context"
	"sync"

	"github.com/lmorg/murex/builtins/pipes/streams"
	"github.com/lmorg/murex/lang"
	"github.com/lmorg/murex/lang/types"
	"github.com/lmorg/murex/zzverif/mx"
	"github.com/lmorg/murex/zzverif/rt"
)

var verifTypes = []string{types.String, types.Generic, types.JsonLines}

// verifList: k elements of 0..n bytes over the legal alphabet of the type (printable ASCII, no
// newline; str/jsonl: no leading/trailing blank; generic: no tab - none is in the range).
func verifList(dt string, k, n int) [][]byte {
	list := make([][]byte, k)
	for i := range list {
		e := rt.Bytes("elem", rt.Choice("len", n+1))
		for _, c := range e {
			rt.Assume(rt.And(c >= ' ', c <= '~'))
		}
		if len(e) > 0 && dt != types.Generic {
			rt.Assume(rt.And(e[0] != ' ', e[len(e)-1] != ' '))
		}
		list[i] = e
	}
	return list
}

// VerifC15RoundTrip: WriteArray(dt) then ReadArray gives the same list, in order.
func VerifC15RoundTrip() {
	mx.Init() // registers the data types
	dt := verifTypes[rt.Choice("type", len(verifTypes))]
	k := rt.Choice("count", rt.Param("k")+1)
	list := verifList(dt, k, rt.Param("n"))

	s := streams.NewStdin()
	s.SetDataType(dt)
	w, err := s.WriteArray(dt)
	rt.Assert(err == nil, "no array writer for the type")
	useString := rt.Bool("writeString")
	for _, e := range list {
		if useString {
			err = w.WriteString(string(e))
		} else {
			err = w.Write(e)
		}
		rt.Assert(err == nil, "array writer failed")
	}
	rt.Assert(w.Close() == nil, "array writer Close failed")
	rt.Reach("written")

	var got [][]byte
	err = s.ReadArray(context.Background(), func(b []byte) {
		got = append(got, append([]byte{}, b...))
	})
	rt.Assert(err == nil, "ReadArray failed")
	rt.Reach("read-back")
	rt.Assert(len(got) == len(list), "number of elements read back differs from the number written")
	for i := range list {
		rt.Assert(string(got[i]) == string(list[i]), "an element read back differs from the element written")
	}
}

// verifLongLens: element lengths around the buffer sizes on the path (bufio.Scanner's 4 KiB start
// buffer and its doublings up to the 64 KiB token cap) up to the 60 KiB the property promises.
var verifLongLens = []int{4095, 4096, 4097, 8192, 16384, 32767, 32768, 32769, 40000, 61440}

// VerifC15Long: a list with one long element (length from verifLongLens, filler bytes with a
// symbolic first and last byte) between two short symbolic elements round-trips like any other.
func VerifC15Long() {
	mx.Init()
	dt := verifTypes[rt.Choice("type", len(verifTypes))]
	nl := rt.Param("lens")
	L := verifLongLens[rt.Choice("long", nl)]
	long := make([]byte, L)
	for i := range long {
		long[i] = 'a'
	}
	ends := rt.Bytes("ends", 2)
	for _, c := range ends {
		rt.Assume(rt.And(c > ' ', c <= '~'))
	}
	long[0], long[L-1] = ends[0], ends[1]
	before := verifList(dt, rt.Choice("before", 2), 1)
	after := verifList(dt, rt.Choice("after", 2), 1)
	list := append(append(before, long), after...)

	s := streams.NewStdin()
	s.SetDataType(dt)
	w, err := s.WriteArray(dt)
	rt.Assert(err == nil, "no array writer for the type")
	for _, e := range list {
		rt.Assert(w.Write(e) == nil, "array writer failed")
	}
	rt.Assert(w.Close() == nil, "array writer Close failed")
	var got [][]byte
	err = s.ReadArray(context.Background(), func(b []byte) {
		got = append(got, append([]byte{}, b...))
	})
	rt.Assert(err == nil, "ReadArray failed on a list with an element of at most 60 KiB")
	rt.Reach("long-read-back")
	rt.Assert(len(got) == len(list), "number of elements read back differs from the number written (long element)")
	for i := range list {
		rt.Assert(len(got[i]) == len(list[i]), "length of an element read back differs (long element)")
		if len(list[i]) > 0 {
			rt.Assert(got[i][0] == list[i][0], "first byte of an element read back differs (long element)")
		}
	}
	rt.Assert(string(got[len(before)]) == string(long), "the long element read back differs from the element written")
}

// ---- foreach ----

var (
	verifOnce sync.Once
	verifEmit struct {
		dt   string
		list [][]byte
	}
)

func verifDefine() {
	rt.Persistent(func() {
		verifOnce.Do(func() {
			mx.Init()
			lang.DefineFunction("verifc15emit", func(p *lang.Process) error {
				p.Stdout.SetDataType(verifEmit.dt)
				w, err := p.Stdout.WriteArray(verifEmit.dt)
				if err != nil {
					return err
				}
				for _, e := range verifEmit.list {
					if err := w.Write(e); err != nil {
						return err
					}
				}
				return w.Close()
			}, types.Any)
		})
	})
}

// VerifC15Foreach: `emit -> foreach v { out "<$v>" }` prints <element> once per element, in order.
func VerifC15Foreach() {
	verifDefine()
	// str and generic only: foreach unmarshals every jsonl element with encoding/json
	// (reflection codec on symbolic bytes: outside the engine)
	dt := verifTypes[rt.Choice("type", 2)]
	k := rt.Choice("count", rt.Param("k")+1)
	list := verifList(dt, k, rt.Param("n"))
	verifEmit.dt, verifEmit.list = dt, list
	hasEmpty := false
	for _, e := range list {
		hasEmpty = hasEmpty || len(e) == 0
	}
	rt.KnownFinding("C15-foreach-skips-empty-elements", hasEmpty)
	if rt.Param("setaside") == 1 { // diagnostic runs only; always 0 in spec.json
		rt.Assume(!hasEmpty)
	}

	stdout, _, exitNum, err := mx.Run(`verifc15emit -> foreach v { out "<$(v)>" }`)
	rt.Assert(err == nil, "block does not compile")
	rt.Reach("ran")
	want := ""
	for _, e := range list {
		want += "<" + string(e) + ">\n"
	}
	rt.Assert(exitNum == 0, "foreach failed")
	rt.Assert(len(stdout) == len(want), "foreach did not run its body exactly once per element")
	rt.Assert(stdout == want, "foreach did not bind the elements verbatim and in order")
}

// ---- forwarding: a reader's slices go straight into another type's writer ----

// (json is left out: its writer re-encodes with encoding/json, which the engine runs on concrete values only)
var verifForwardTypes = []string{types.String, types.Generic, types.JsonLines, "paths"}

// VerifC15Forward: the idiom of murex's list builtins: every []byte a ReadArray callback hands out
// (for line-based types a window into the scanner's buffer, valid until the next element) is
// passed straight to the Write of another type's array writer; the list read back from that
// writer's output must be the list that was read. The source is a `str` list of `items` lines of
// `width` bytes (more than the scanner's 4 KiB start buffer in total); the first and the last
// line start with a symbolic byte.
func VerifC15Forward() {
	mx.Init()
	dt := verifForwardTypes[rt.Choice("type", len(verifForwardTypes))]
	n, w := rt.Param("items"), rt.Param("width")
	lines := make([]string, n)
	text := ""
	for i := range lines {
		b := make([]byte, w)
		for j := range b {
			b[j] = byte('a' + (i+j)%26)
		}
		b[0] = byte('A' + i%10)
		if i == 0 || i == n-1 { // the first and the last line start with a symbolic byte
			c := rt.Byte("first")
			rt.Assume(rt.And(c >= 'A', c <= 'J'))
			b[0] = c
		}
		lines[i] = string(b)
		text += lines[i] + "\n"
	}
	src := streams.NewStdin()
	src.SetDataType(types.String)
	_, err := src.Write([]byte(text))
	rt.Assert(err == nil, "cannot fill the source")

	dst := streams.NewStdin()
	dst.SetDataType(dt)
	aw, err := dst.WriteArray(dt)
	rt.Assert(err == nil, "no array writer for the type")
	err = src.ReadArray(context.Background(), func(b []byte) {
		rt.Assert(aw.Write(b) == nil, "array writer failed")
	})
	rt.Assert(err == nil, "reading the source failed")
	rt.Assert(aw.Close() == nil, "array writer Close failed")
	rt.Reach("forwarded")

	var got []string
	err = dst.ReadArray(context.Background(), func(b []byte) {
		got = append(got, string(b))
	})
	rt.Assert(err == nil, "reading the forwarded list failed")
	rt.Assert(len(got) == len(lines), "forwarding a list into another type's array writer changed the number of elements")
	for i := range lines {
		if i < len(got) {
			rt.Assert(got[i] == lines[i], "forwarding a list into another type's array writer changed or mixed up elements")
		}
	}
}
