package alter

// C12 - Structured variables are values, and nested assignment is precise (kernel).
// Real code executed: alter.Alter / loop (what `$v.path = x` runs through Variables.Set),
// types.ConvertGoType for leaf conversion.

import (
	"context"

	"github.com/lmorg/murex/zzverif/rt"
)

type verifC12leaves struct {
	s, k, e string
	i, n    int
	b       bool
}

// verifC12doc builds the document {"s":str,"i":int,"b":bool,"m":{"k":str,"a":[int,str]}} the way
// the JSON decoder delivers it (map[string]any / []any), from the given leaf values.
func verifC12doc(l verifC12leaves) map[string]any {
	return map[string]any{
		"s": l.s,
		"i": l.i,
		"b": l.b,
		"m": map[string]any{
			"k": l.k,
			"a": []any{l.n, l.e},
		},
	}
}

// verifC12read returns the leaves of a document of the template's shape (ok=false if the shape
// or a leaf type changed) and the value under the extra keys "new" and m."new".
func verifC12read(v any) (l verifC12leaves, extraTop, extraM any, ok bool) {
	d, ok1 := v.(map[string]any)
	if !ok1 {
		return
	}
	var o [6]bool
	l.s, o[0] = d["s"].(string)
	l.i, o[1] = d["i"].(int)
	l.b, o[2] = d["b"].(bool)
	m, okm := d["m"].(map[string]any)
	if !okm {
		return
	}
	l.k, o[3] = m["k"].(string)
	a, oka := m["a"].([]any)
	if !oka || len(a) != 2 {
		return
	}
	l.n, o[4] = a[0].(int)
	l.e, o[5] = a[1].(string)
	ok = o[0] && o[1] && o[2] && o[3] && o[4] && o[5]
	extraTop = d["new"]
	extraM = m["new"]
	return
}

var verifC12paths = [][]string{
	{"s"}, {"i"}, {"b"}, {"m", "k"}, {"m", "a", "0"}, {"m", "a", "1"}, // existing leaves
	{"new"}, {"m", "new"}, // new keys
	{"m", "a", "2"}, {"m", "a", "x"}, {"m", "a", "-1"}, {"i", "deeper"}, // must fail
}

// VerifC12Alter: one nested assignment `$v.path = x` on a document with symbolic leaves.
func VerifC12Alter() {
	vlen := rt.Param("vlen")
	orig := verifC12leaves{
		s: rt.String("s", vlen), k: rt.String("k", vlen), e: rt.String("e", vlen),
		i: rt.Int("i"), n: rt.Int("n"), b: rt.Bool("b"),
	}
	doc := verifC12doc(orig)
	copyDoc := verifC12doc(orig) // a second, independently built copy (what `b = $a` yields)

	pi := rt.Choice("path", len(verifC12paths))
	path := verifC12paths[pi]

	// the replacement scalar: same kind as an existing leaf (symbolic), or a fixed scalar of
	// another kind where the conversion is plain
	var x any
	xs, xi, xb := rt.String("xs", vlen), rt.Int("xi"), rt.Bool("xb")
	for j := 0; j < vlen; j++ {
		rt.Assume(rt.And(xs[j] < 0x80, rt.And(orig.s[j] < 0x80, rt.And(orig.k[j] < 0x80, orig.e[j] < 0x80))))
	}
	kind := rt.Choice("xkind", 6)
	// symbolic text into an int/bool leaf needs parsing and error formatting of symbolic
	// text: outside (the fixed texts "42" and "foo" stand for it)
	rt.Assume(!(kind == 0 && (pi == 1 || pi == 2 || pi == 4)))
	// symbolic int/bool into a text leaf needs formatting of symbolic numbers; bool into int and
	// int into bool are conversions the statement does not spell out: outside
	rt.Assume(!((kind == 1 || kind == 2) && (pi == 0 || pi == 3 || pi == 5)))
	rt.Assume(!(kind == 2 && (pi == 1 || pi == 4)))
	rt.Assume(!(kind == 1 && pi == 2))
	switch kind {
	case 5:
		x = "foo" // text that is not a number
	case 0:
		x = xs
	case 1:
		x = xi
	case 2:
		x = xb
	case 3:
		x = "42" // text that is a number
	case 4:
		x = 7.0
	}

	// known finding C12-array-element-error-swallowed: a text that is not a number assigned to
	// an integer element of an array
	rt.KnownFinding("C12-array-element-error-swallowed", pi == 4 && kind == 5)
	if rt.Param("assume_known") == 1 {
		rt.Assume(!(pi == 4 && kind == 5))
	}

	var (
		ret any
		err error
	)
	_, panicked := rt.CatchPanic(func() { ret, err = Alter(context.Background(), doc, path, x) })
	rt.Assert(!panicked, "nested assignment panicked")
	rt.Reach("altered")

	// the copy never changes
	cl, ct, cm, cok := verifC12read(copyDoc)
	rt.Assert(cok && ct == nil && cm == nil, "modifying one copy changed the shape of the other")
	rt.Assert(cl.s == orig.s && cl.k == orig.k && cl.e == orig.e && cl.i == orig.i && cl.n == orig.n && cl.b == orig.b,
		"modifying one copy changed the other")

	if pi >= 8 {
		rt.Reach("bad-path")
		rt.Assert(err != nil, "assignment through a path that does not exist in the document succeeded")
		return
	}
	if err != nil {
		// the statement speaks about assignments that succeed; a refused conversion
		// (e.g. text into an int leaf) is not judged here
		rt.Reach("refused")
		rt.Assume(false)
	}
	rt.Reach("succeeded")

	got, top, inM, ok := verifC12read(ret)
	rt.Assert(ok, "a leaf changed its type or the document changed its shape")
	want := orig
	wantTop, wantM := any(nil), any(nil)
	// expected value of the addressed leaf: x converted to the leaf's existing type
	switch pi {
	case 0, 3, 5: // string leaves
		var s string
		switch kind {
		case 0:
			s = xs
		case 3:
			s = "42"
		case 4:
			s = "7"
		case 5:
			s = "foo"
		default:
			rt.Assume(false) // int/bool to text: formatting of symbolic numbers is outside
		}
		switch pi {
		case 0:
			want.s = s
		case 3:
			want.k = s
		case 5:
			want.e = s
		}
	case 1, 4: // int leaves
		var n int
		switch kind {
		case 1:
			n = xi
		case 3:
			n = 42
		case 4:
			n = 7
		default:
			rt.Assume(false) // symbolic text / bool to int: outside
		}
		if pi == 1 {
			want.i = n
		} else {
			want.n = n
		}
	case 2: // bool leaf
		switch kind {
		case 2:
			want.b = xb
		case 3, 4, 5:
			want.b = true
		default:
			rt.Assume(false)
		}
	case 6:
		wantTop = x
	case 7:
		wantM = x
	}
	rt.Assert(got.s == want.s && got.k == want.k && got.e == want.e, "a text leaf does not read back as expected (addressed leaf = new value, others unchanged)")
	rt.Assert(got.i == want.i && got.n == want.n, "an integer leaf does not read back as expected (addressed leaf = new value, others unchanged)")
	rt.Assert(got.b == want.b, "the boolean leaf does not read back as expected")
	same := func(a, b any) bool {
		switch t := a.(type) {
		case nil:
			return b == nil
		case string:
			u, ok := b.(string)
			return ok && t == u
		case int:
			u, ok := b.(int)
			return ok && t == u
		case bool:
			u, ok := b.(bool)
			return ok && t == u
		case float64:
			u, ok := b.(float64)
			return ok && t == u
		}
		return false
	}
	rt.Assert(same(wantTop, top), "a new top-level key does not read back the assigned value (or appeared unasked)")
	rt.Assert(same(wantM, inM), "a new nested key does not read back the assigned value (or appeared unasked)")
}
