package c12

// C12 end to end (added by the main session after a seeded change in the copy path was missed
// by the kernel harness): copy a structured variable with `b = $a`, modify one of the two
// copies with a nested assignment, read both copies back by path. Runs the real parser,
// expAssign, getVar, Variables.Set, alter.Alter and element lookup through mx.Run; the same
// code runs natively for replay.

import (
	"fmt"
	"strings"

	"github.com/lmorg/murex/zzverif/mx"
	"github.com/lmorg/murex/zzverif/rt"
)

type doc struct {
	literal string
	// leaves: path -> value as printed by `out`
	leaves [][2]string
}

var docs = []doc{
	{`%{list:[{n:1},{n:2}], m:{k:3}}`, [][2]string{{"list.0.n", "1"}, {"list.1.n", "2"}, {"m.k", "3"}}},
	{`%[[1,2],[3,4]]`, [][2]string{{"0.0", "1"}, {"0.1", "2"}, {"1.0", "3"}, {"1.1", "4"}}},
	{`%{m:{k:{j:5}}, s:6}`, [][2]string{{"m.k.j", "5"}, {"s", "6"}}},
	{`%{a:[1,2,3], b:[{c:[7,8]}]}`, [][2]string{{"a.0", "1"}, {"a.2", "3"}, {"b.0.c.0", "7"}, {"b.0.c.1", "8"}}},
}

// VerifC12Copy: template x modified leaf x which copy is modified x second leaf read.
func VerifC12Copy() {
	d := docs[rt.Choice("doc", len(docs))]
	li := rt.Choice("leaf", 4)
	rt.Assume(li < len(d.leaves))
	oi := rt.Choice("other", 4)
	rt.Assume(oi < len(d.leaves) && oi != li)
	modB := rt.Choice("modify_copy", 2) == 1
	leaf, other := d.leaves[li], d.leaves[oi]
	target, untouched := "a", "b"
	if modB {
		target, untouched = "b", "a"
	}
	prog := fmt.Sprintf("a = %s\nb = $a\n$%s.%s = 9\nout $%s.%s\nout $%s.%s\nout $%s.%s\nout $%s.%s\n",
		d.literal, target, leaf[0],
		target, leaf[0], untouched, leaf[0], target, other[0], untouched, other[0])
	rt.Note(strings.ReplaceAll(prog, "\n", "; "))
	stdout, stderr, exit, err := mx.Run(prog)
	rt.Assert(err == nil, "program did not compile")
	rt.Reach("ran")
	rt.Assert(exit == 0 && stderr == "", "copy / nested assignment / read failed: "+stderr)
	lines := strings.Split(strings.TrimRight(stdout, "\n"), "\n")
	rt.Assert(len(lines) == 4, "unexpected output: "+stdout)
	if len(lines) != 4 {
		return
	}
	rt.Assert(lines[0] == "9", "the assigned path does not read back the new value: "+stdout)
	rt.Assert(lines[1] == leaf[1], "modifying one copy changed the other copy: "+stdout)
	rt.Assert(lines[2] == other[1], "another path of the modified copy changed: "+stdout)
	rt.Assert(lines[3] == other[1], "another path of the untouched copy changed: "+stdout)
}

type subdoc struct {
	literal string
	sub     string      // path of a container inside the document
	leaves  [][2]string // leaves below sub: path relative to sub -> value
}

var subdocs = []subdoc{
	{`%{cfg:{port:80, host:h}, s:6}`, "cfg", [][2]string{{"port", "80"}, {"host", "h"}}},
	{`%{list:[1,2,3], m:{k:3}}`, "list", [][2]string{{"0", "1"}, {"1", "2"}, {"2", "3"}}},
	{`%[[1,2],[3,4]]`, "1", [][2]string{{"0", "3"}, {"1", "4"}}},
	{`%{a:{b:{c:7, d:8}}}`, "a.b", [][2]string{{"c", "7"}, {"d", "8"}}},
}

// VerifC12SubCopy: `b = $a.<container>` copies a sub-document: modifying the copy leaves the
// original unchanged and the other way round.
func VerifC12SubCopy() {
	d := subdocs[rt.Choice("doc", len(subdocs))]
	li := rt.Choice("leaf", 3)
	rt.Assume(li < len(d.leaves))
	leaf := d.leaves[li]
	modCopy := rt.Choice("modify_copy", 2) == 1
	var prog string
	if modCopy {
		prog = fmt.Sprintf("a = %s\nb = $a.%s\n$b.%s = 9\nout $b.%s\nout $a.%s.%s\n", d.literal, d.sub, leaf[0], leaf[0], d.sub, leaf[0])
	} else {
		prog = fmt.Sprintf("a = %s\nb = $a.%s\n$a.%s.%s = 9\nout $a.%s.%s\nout $b.%s\n", d.literal, d.sub, d.sub, leaf[0], d.sub, leaf[0], leaf[0])
	}
	rt.Note(strings.ReplaceAll(prog, "\n", "; "))
	stdout, stderr, exit, err := mx.Run(prog)
	rt.Assert(err == nil, "program did not compile")
	rt.Reach("sub-ran")
	rt.Assert(exit == 0 && stderr == "", "sub-document copy / nested assignment / read failed: "+stderr)
	lines := strings.Split(strings.TrimRight(stdout, "\n"), "\n")
	rt.Assert(len(lines) == 2, "unexpected output: "+stdout)
	if len(lines) != 2 {
		return
	}
	rt.Assert(lines[0] == "9", "the assigned path does not read back the new value: "+stdout)
	rt.Assert(lines[1] == leaf[1], "modifying a sub-document copy (or its origin) changed the other one: "+stdout)
}
